#!/bin/sh
# Records, on the UNCHANGED tree, which Reach witnesses every harness hits
# (harness/witnesses.json). Later runs must hit them again, else VACUOUS.
# usage: tools/record_witnesses.sh [harness...]   (default: all)
cd "$(dirname "$0")/.." || exit 2
python3 - "$@" <<'PY'
import json, subprocess, sys
reg = json.load(open('harness/registry.json'))
seen = {}
for p in reg:
    for e in p['entries']:
        seen.setdefault(e['func'], p['id'])
want = sys.argv[1:] or sorted(seen)
for fn in want:
    pid = seen[fn]
    r = subprocess.run(['./bin/gosmx', 'check', '-prop', pid, '-tier', 'thorough', '-only', fn, '-record-witnesses', '-no-evidence'], capture_output=True, text=True)
    line = [l for l in r.stdout.splitlines() if l.startswith('harness')]
    print(fn, pid, 'exit', r.returncode, line[-1][40:] if line else r.stdout[-300:])
    sys.stdout.flush()
PY
