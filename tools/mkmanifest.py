#!/usr/bin/env python3
"""Generates MANIFEST.json from harness/registry.json."""
import json, os
here = os.path.dirname(os.path.abspath(__file__))
root = os.path.join(here, "..")
reg = {p["id"]: p for p in json.load(open(os.path.join(root, "harness", "registry.json")))}
props = [json.loads(l) for l in open(os.path.join(root, "properties.jsonl"))]
NA = json.load(open(os.path.join(here, "not_applicable.json"))) if os.path.exists(os.path.join(here, "not_applicable.json")) else {}

FIXES = [l.split()[2] for l in open(os.path.join(root, "known_findings.jsonl")) if l.startswith("fixed:")]

TEXT = ("Bounded symbolic execution of the repository's own functions (go/ssa built from /repo's working tree on every run): "
        "inputs, sizes, header bytes, environment results, crash points and scheduler choices are SMT variables; every assertion and every "
        "implicit run-time-error condition is a separate solver query (path condition AND NOT obligation); unsat on every feasible path "
        "within the stated bounds = holds for all values within the bounds, sat = a concrete counterexample that is re-executed concretely "
        "(and natively with go test -overlay where the harness needs no environment model) before it is reported. Not a proof: nothing is claimed outside the bounds.")

m = {
 "version": 1,
 "setup_cmd": "./bin/setup",
 "hooks": {"guard": "verif",
           "enable": "none needed: harnesses and environment models are injected through go/packages overlays (and go test -overlay for native replays); nothing is written under /repo",
           "baseline_off_cmd": "cd /repo && go test -vet=off -count=1 -timeout 25m ./...",
           "source_commits": [], "add_only": True},
 "engines": [{"name": "gosmx", "path": "engine", "serves_properties": sorted(reg),
              "kind_free_text": "bounded symbolic executor for go/ssa (x/tools v0.29.0 interp, modified) + SMT portfolio: z3 5.1 incremental, cvc5 --solve-bv-as-int=sum, cvc5, z3 4.8; cvc5 strings + z3 for string-mode harnesses"}],
 "checks": [], "not_applicable": [],
 "notes": "DESIGN.md (section 11 = as built) describes the engine, the environment models and, per property, what is decided, the bounds and what lies outside. known_findings.jsonl lists recorded findings (JSON lines: F8 for C08, F10 for C17) and repaired defects (fixed: lines, one unguarded 'fix:' commit in /repo each: " + ", ".join(FIXES) + "). No source hooks: harnesses and models are overlays. not_applicable is empty because every property has clauses decided by a solver-based check; the clauses that are not (real zstd/sha256/protobuf/TLS/LDAP libraries, URL grammar of parseRequestURL, that flag names / environment variables / YAML keys reach their values inside urfave/cli and yaml.v3, power-loss semantics, weak memory) are listed per property under 'Outside the claim' in level_note and in DESIGN.md 11.3. seeded/ holds 82 independently written breaking changes with their demonstrations; seeded/RESULTS.md records that the quick check of the property concerned reports each of them.",
}
for p in props:
    pid = p["id"]
    if pid in reg:
        r = reg[pid]
        hs = [e for e in r["entries"]]
        quick = [e["func"] for e in hs if e["tier"] == "quick"]
        thor = [e["func"] for e in hs if e["tier"] == "thorough"]
        note = ("quick harnesses: " + ", ".join(quick) + ". thorough adds: " + (", ".join(thor) or "-") +
                ". Bounds per harness are in harness/registry.json and in the evidence file. Assumed/trusted: " + "; ".join(r["assumptions"]) +
                ". Outside the claim: " + "; ".join(r["outside"]) + ". Trusted base: go/packages+go/ssa as the semantics of the source, the engine's interpreter and term builder, the Go-written environment models (harness/zzverif/vmodel), the solvers.")
        m["checks"].append({
            "property_id": pid,
            "quick_cmd": "./bin/check %s quick" % pid,
            "thorough_cmd": "./bin/check %s thorough" % pid,
            "evidence_file": "evidence/%s.json" % pid,
            "replay_cmd_template": "./bin/gosmx replay {path}",
            "engine": "gosmx",
            "level_claimed": {"category": "model_checking", "text": TEXT, "design_ref": "DESIGN.md section 6 (%s) and section 11" % pid},
            "level_note": note,
            "technique": "solver-based checking of the real code: bounded symbolic execution of go/ssa, SMT (QF_BV; strings via cvc5/z3 where marked)",
        })
    else:
        m["not_applicable"].append({"property_id": pid, "reason": NA.get(pid, "no harness built yet in this session (work in progress); no other technique is substituted")})
json.dump(m, open(os.path.join(root, "MANIFEST.json"), "w"), indent=1)
print("manifest: %d checks, %d not applicable" % (len(m["checks"]), len(m["not_applicable"])))
