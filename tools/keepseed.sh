#!/bin/sh
# usage: tools/keepseed.sh <worktree> <seed-id> <property>
# Confirms a sub-agent's seeded change (demo fails with it, passes without it,
# builds) in its scratch worktree and archives it under /verif/seeded/<id>/.
wt="$1"; id="$2"; prop="$3"
. /verif/bin/env.sh
export CGO_ENABLED=1
cd "$wt" || exit 2
demo=$(find . -name zz_demo_test.go | head -1)
[ -n "$demo" ] || { echo "no demo"; exit 2; }
pkg=$(dirname "$demo")
git apply -R --check SEED/patch.diff 2>/dev/null || git apply SEED/patch.diff 2>/dev/null
go build ./... || { echo "BUILD FAILS"; exit 1; }
go test -vet=off -count=1 -run TestDemo "$pkg" > /tmp/seed_with.txt 2>&1; with=$?
git apply -R SEED/patch.diff || { echo "cannot revert"; exit 2; }
go test -vet=off -count=1 -run TestDemo "$pkg" > /tmp/seed_without.txt 2>&1; without=$?
git apply SEED/patch.diff
echo "demo with change: exit $with (expect non-zero); without: exit $without (expect 0)"
if [ "$with" != 0 ] && [ "$without" = 0 ]; then
  d=/verif/seeded/$id; mkdir -p $d
  cp SEED/patch.diff $d/patch.diff; cp "$demo" $d/demo_test.go; cp SEED/notes.md $d/notes.md
  python3 - "$d" "$id" "$prop" "$pkg" <<'PY'
import json,sys
d,i,p,pkg=sys.argv[1:5]
json.dump({"seed":i,"property":p,"demo_package":pkg,"demo_file":"demo_test.go (place as zz_demo_test.go in the package dir)",
 "confirmed":"demo test fails with patch.diff applied and passes without it; go build ./... ok (re-run by tools/keepseed.sh in a scratch worktree)",
 "needs_to_manifest":"see notes.md","checked_with":"tools/seedcheck.sh seeded/%s/patch.diff %s"%(i,p)},open(d+"/meta.json","w"),indent=1)
PY
  echo "archived $d"
else
  echo "NOT CONFIRMED"; tail -5 /tmp/seed_with.txt /tmp/seed_without.txt
fi
