#!/bin/sh
# usage: tools/seedmatrix.sh [-j N] [seed-id...]
# Runs every archived seeded change against its property's quick check and
# writes seeded/RESULTS.md.
#   default (-j 1): the way the brief prescribes - git -C /repo apply; run the
#     check; git -C /repo checkout -- .  (/repo must be clean and unused meanwhile)
#   -j N (N > 1): N seeds at a time, each in its own scratch worktree of /repo's
#     HEAD (VERIF_REPO), removed afterwards; /repo itself is not touched. The
#     check, the harnesses and the engine are the same.
cd "$(dirname "$0")/.." || exit 2
par=1
if [ "$1" = "-j" ]; then par="$2"; shift 2; fi
ids="$*"
[ -n "$ids" ] || ids=$(ls seeded | grep -v '^_' | grep -v RESULTS)
mkdir -p .work/matrix
one() {
  id="$1"
  [ -f seeded/$id/patch.diff ] || return
  prop=$(python3 -c "import json;print(json.load(open('seeded/$id/meta.json'))['property'])")
  if [ "$par" = 1 ]; then
    git -C /repo apply "$(readlink -f seeded/$id/patch.diff)" || { echo "$id|$prop|patch does not apply|" > .work/matrix/$id.res; return; }
    ./bin/gosmx check -prop "$prop" -tier quick -no-evidence > .work/matrix/$id.out 2>&1; rc=$?
    git -C /repo checkout -- .
  else
    wt=/tmp/wt_mx_$id
    git -C /repo worktree add --detach -q "$wt" HEAD || return
    git -C "$wt" apply "$(readlink -f seeded/$id/patch.diff)" || { echo "$id|$prop|patch does not apply|" > .work/matrix/$id.res; git -C /repo worktree remove --force "$wt"; return; }
    VERIF_REPO="$wt" ./bin/gosmx check -prop "$prop" -tier quick -no-evidence -workers $((16 / par + 2)) > .work/matrix/$id.out 2>&1; rc=$?
    git -C /repo worktree remove --force "$wt"
  fi
  v=$(grep -m1 '^VIOLATION' .work/matrix/$id.out | sed 's/.*# //; s/ \[.*//' | sed "s#/tmp/wt_mx_$id/##g" | cut -c1-160)
  case $rc in
    1) verdict="VIOLATION (exit 1)";;
    0) verdict="**missed** (exit 0)";;
    *) verdict="inconclusive (exit $rc)";;
  esac
  echo "$id|$prop|$verdict|$v" > .work/matrix/$id.res
  echo "$id $prop rc=$rc $v"
}
if [ "$par" = 1 ]; then
  git -C /repo diff --quiet || { echo "/repo has uncommitted changes"; exit 2; }
  for id in $ids; do one $id; done
else
  n=0
  for id in $ids; do
    one $id &
    n=$((n+1))
    if [ $((n % par)) = 0 ]; then wait; fi
  done
  wait
fi
out=seeded/RESULTS.md
{
echo "Result of \`tools/seedmatrix.sh\` (each seed applied, the property's quick check run, the change undone; \`-j N\` runs use scratch worktrees of /repo's HEAD instead of /repo itself):"
echo
echo "| seed | property | verdict of the quick check | first violated assertion |"
echo "|---|---|---|---|"
for f in $(ls .work/matrix/*.res | sort); do
  IFS='|' read -r id prop verdict v < $f
  echo "| $id | $prop | $verdict | $v |"
done
} > $out
grep -c "VIOLATION" $out
