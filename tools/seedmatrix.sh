#!/bin/sh
# usage: tools/seedmatrix.sh [seed-id...]
# Runs every archived seeded change against its property's quick check, the way
# the brief prescribes (git -C /repo apply; run; git -C /repo checkout -- .),
# and writes seeded/RESULTS.md. /repo must be clean and nothing else may be
# using it meanwhile.
cd "$(dirname "$0")/.." || exit 2
git -C /repo diff --quiet || { echo "/repo has uncommitted changes"; exit 2; }
ids="$*"
[ -n "$ids" ] || ids=$(ls seeded | grep -v '^_' | grep -v RESULTS)
out=seeded/RESULTS.md
{
echo "Result of \`tools/seedmatrix.sh\` (each seed applied to /repo, the property's quick check run, the change undone):"
echo
echo "| seed | property | verdict of the quick check | first violated assertion |"
echo "|---|---|---|---|"
} > $out.tmp
for id in $ids; do
  [ -f seeded/$id/patch.diff ] || continue
  prop=$(python3 -c "import json;print(json.load(open('seeded/$id/meta.json'))['property'])")
  git -C /repo apply "$(readlink -f seeded/$id/patch.diff)" || { echo "| $id | $prop | patch does not apply | |" >> $out.tmp; continue; }
  ./bin/gosmx check -prop "$prop" -tier quick -no-evidence > .work/matrix_$id.out 2>&1
  rc=$?
  git -C /repo checkout -- .
  v=$(grep -m1 '^VIOLATION' .work/matrix_$id.out | sed 's/.*# //; s/ \[.*//' | cut -c1-150)
  case $rc in
    1) verdict="VIOLATION (exit 1)";;
    0) verdict="**missed** (exit 0)";;
    *) verdict="inconclusive (exit $rc)";;
  esac
  echo "| $id | $prop | $verdict | $v |" >> $out.tmp
  echo "$id $prop rc=$rc $v"
done
mv $out.tmp $out
