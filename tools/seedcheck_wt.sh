#!/bin/sh
# usage: tools/seedcheck_wt.sh <patch.diff> <property> [quick|thorough] [extra gosmx args]
# Like seedcheck.sh, but in a scratch worktree (VERIF_REPO) so that /repo stays
# untouched while other runs use it. The worktree is removed afterwards.
cd "$(dirname "$0")/.." || exit 2
patch="$(readlink -f "$1")"; prop="$2"; tier="${3:-quick}"; shift 3 2>/dev/null
wt=/tmp/wt_sc_$$
git -C /repo worktree add --detach -q "$wt" HEAD || exit 2
git -C "$wt" apply "$patch" || { echo "patch does not apply"; git -C /repo worktree remove --force "$wt"; exit 2; }
VERIF_REPO="$wt" ./bin/gosmx check -prop "$prop" -tier "$tier" -no-evidence "$@" > .work/seed_$$.out 2>&1
rc=$?
git -C /repo worktree remove --force "$wt"
grep -v "no recorded" .work/seed_$$.out | cut -c1-330 | grep -v "^   " | tail -8
rm -f .work/seed_$$.out
echo "exit=$rc"
