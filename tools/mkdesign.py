#!/usr/bin/env python3
"""Splices tools/asbuilt.md, seeded/RESULTS.md and the harness table generated
from harness/registry.json into section 11 of DESIGN.md."""
import json, os, re
root = os.path.join(os.path.dirname(os.path.abspath(__file__)), "..")
reg = json.load(open(os.path.join(root, "harness", "registry.json")))
body = open(os.path.join(root, "tools", "asbuilt.md")).read()
res = os.path.join(root, "seeded", "RESULTS.md")
body = body.replace("<!-- SEED-RESULTS -->", open(res).read() if os.path.exists(res) else "(seed matrix not yet run)")
t = ["### 11.8 Harness table (generated from harness/registry.json)\n"]
seen = {}
for p in reg:
    t.append("**%s** — quick: %s; thorough adds: %s\n" % (p["id"],
        ", ".join(e["func"] for e in p["entries"] if e["tier"] == "quick"),
        ", ".join(e["func"] for e in p["entries"] if e["tier"] == "thorough") or "-"))
    for e in p["entries"]:
        seen.setdefault(e["func"], e)
t.append("\n| harness | package | bounds | decides |\n|---|---|---|---|")
for fn in sorted(seen):
    e = seen[fn]
    extra = []
    for k in ("unwind", "switches", "strings", "yield_unlock", "block_choices"):
        if e.get(k):
            extra.append("%s=%s" % (k, e[k]))
    t.append("| %s | %s | %s%s | %s |" % (fn, e["pkg"], e["bounds"].replace("|", "/"), (" [" + ", ".join(extra) + "]") if extra else "", e["decides"].replace("|", "/")))
body += "\n" + "\n".join(t) + "\n"
p = os.path.join(root, "DESIGN.md")
s = open(p).read()
s = re.sub(r"<!-- AS-BUILT-BEGIN -->.*<!-- AS-BUILT-END -->", lambda m: "<!-- AS-BUILT-BEGIN -->\n" + body + "<!-- AS-BUILT-END -->", s, flags=re.S)
open(p, "w").write(s)
print("DESIGN.md section 11 regenerated (%d harnesses)" % len(seen))
