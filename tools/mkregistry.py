#!/usr/bin/env python3
"""Generates harness/registry.json: which harness entry points decide which property."""
import json, os

H = {}  # name -> entry

def h(name, pkg, files, bounds, decides, native=False, **kw):
    e = {"pkg": pkg, "func": name, "files": files, "native": native, "bounds": bounds, "decides": decides}
    e.update(kw)
    H[name] = e

SIZES = "all sizes, max_size, reservations symbolic in [0,2^61)"
D = "./cache/disk"
CB = "./cache/disk/casblob"
LRU = ["zz_verif_lru.go"]
h("VerifLRULemmas", D, LRU, "all 64-bit x in [0,2^61)", "roundUp4k equals the independent rounding spec; sumLargerThan equals the mathematical comparison; NewSizedLRU is the base state", native=True)
for n in (3, 4):
    h("VerifLRUAdd%d" % n, D, LRU, "N<=%d live entries; %s" % (n, SIZES), "one Add (fresh key or overwrite) from any valid state: refusal contract, exact accounting, LRU-suffix eviction, minimal eviction, backlog bookkeeping", native=True)
    h("VerifLRUReserve%d" % n, D, LRU, "N<=%d live entries; %s; hard limit and backlog symbolic" % (n, SIZES), "one Reserve from any valid state: admission rule incl. hard limit, 400/507 classification, refusal changes nothing, minimal LRU eviction", native=True)
h("VerifLRUUnreserve", D, LRU, "N<=2; " + SIZES, "Unreserve: exact, refusal changes nothing", native=True)
h("VerifLRUGet", D, LRU, "N<=4", "Get: accounting unchanged, hit moves exactly that entry to the front", native=True)
h("VerifLRURemove", D, LRU, "N<=3; " + SIZES, "RemoveKey/RemoveElement: exact accounting, file queued for deletion, backlog bookkeeping", native=True)

RD = ["zz_verif_read.go"]
RB = "chunk size any uint32 >= 1; logical size < 2^40; every offset < n; size known or unknown"
for n in (4, 6):
    h("VerifReadUncompressed%d" % n, CB, RD, "table <= %d entries; %s" % (n, RB), "GetUncompressedReadCloser delivers exactly logical bytes [offset,n) of every file conforming to the independent v2 specification", unwind=16)
    h("VerifReadZstd%d" % n, CB, RD, "table <= %d entries; %s" % (n, RB), "GetZstdReadCloser delivers whole frames (header at offset 0, re-encoded partial first chunk otherwise) decoding to [offset,n)", unwind=16)
h("VerifReadIdentity", CB, RD, "identity v2 files, n < 2^40", "identity files are read at header+offset")
h("VerifReadWrongSize", CB, RD, "3-entry table", "size mismatch is an error and closes the file")
h("VerifReadArbitrary2", CB, RD, "2-entry table; all 45 header bytes, file size, offset, expected size symbolic; codec returns arbitrary lengths/errors", "no header that readHeader accepts can panic the readers; files and goroutines released on every return", unwind=16)
h("VerifReadArbitrary3", CB, RD, "3-entry table; all 53 header bytes symbolic", "as VerifReadArbitrary2", unwind=16)

WR = ["zz_verif_write.go", "zz_verif_read.go"]
WB = "stream length, blob length, first difference, fault offset symbolic; reader may deliver EOF with or after the last bytes"
h("VerifWriteZstd2", CB, WR, "declared size <= 2 MiB (<=2 chunks); " + WB, "WriteAndClose (zstd) accepts iff the stream is exactly the declared blob; the file written conforms to the v2 specification byte for byte (header) and frame for frame (data)", unwind=8)
h("VerifWriteZstd3", CB, WR, "declared size <= 3 MiB (<=3 chunks), one short read allowed; " + WB, "as VerifWriteZstd2", unwind=10)
h("VerifWriteIdentity", CB, WR, "declared size <= 2 MiB; " + WB, "WriteAndClose (identity; dead code in this build) accepts iff the stream is exactly the declared blob", unwind=8)

PUT = ["zz_verif_put.go"]
PB = "declared size <= 2 MiB; stream/blob/size relations, max_blob_size, hard limit, backlog symbolic; key fresh or overwriting entry 0"
h("VerifPutCasZstd", D, PUT, "<=1 pre-existing entry; " + PB, "Put (compressed CAS): accepted iff stream is the declared blob within limits; index, directory, reservation consistent on every return", unwind=8)
h("VerifPutCasZstdProxy", D, PUT, "<=2 pre-existing entries, backend present; " + PB, "as VerifPutCasZstd + hand-over to the backend exactly once", unwind=8)
h("VerifPutCasRaw", D, PUT, "<=1 pre-existing entry, uncompressed storage; " + PB, "Put (raw CAS through sha256verifier)", unwind=8)
h("VerifPutCasRawProxy", D, PUT, "<=2 pre-existing entries, uncompressed storage, backend present; " + PB, "as VerifPutCasRaw + hand-over to the backend", unwind=8)
h("VerifPutAC", D, PUT, "<=1 pre-existing entry; " + PB, "Put (AC): only the length is checked by the disk layer", unwind=8)
h("VerifPutRawProxy", D, PUT, "<=2 pre-existing entries, backend present; " + PB, "Put (RAW)", unwind=8)

GET = ["zz_verif_get.go"]
GB = "1-2 entries; requested size (incl. unknown) and offset symbolic; file good / missing / arbitrary header"
h("VerifGetCasZstd", D, GET, GB + "; blob file any conformant v2 file with 3 table entries", "Get on compressed CAS: hit iff present with matching size; bytes [offset,n); broken entries dropped with exact accounting", unwind=16)
h("VerifGetCasZstdAsZstd", D, GET, GB + "; as above", "GetZstd on compressed CAS", unwind=16)
h("VerifGetCasRaw", D, GET, GB + "; raw .v1 files", "Get on uncompressed CAS", unwind=16)
h("VerifGetCasRawAsZstd", D, GET, GB + "; raw .v1 files; 2 threads (encoder goroutine), <=2 preemptions", "GetZstd on uncompressed CAS (legacy encoder goroutine through io.Pipe)", unwind=16)
h("VerifGetAC", D, GET, GB, "Get on AC", unwind=16)
h("VerifGetCasRawInZstdMode", D, GET, GB + "; raw .v1 files (written in uncompressed mode) read by a server running in zstd mode", "entries written under the other storage mode stay readable with unchanged content (Get)", unwind=16)
h("VerifGetCasRawInZstdModeAsZstd", D, GET, GB + "; as above, GetZstd", "as above (GetZstd, on-the-fly encoder)", unwind=16)
h("VerifGetCasZstdInRawMode", D, GET, GB + "; conformant v2 casblob files (3 table entries) read by a server running in uncompressed mode", "entries written under the other storage mode stay readable with unchanged content (Get)", unwind=16)
h("VerifGetCasZstdInRawModeAsZstd", D, GET, GB + "; as above, GetZstd", "as above (GetZstd)", unwind=16)
h("VerifGetSpecial", D, GET, "-", "empty blob always readable; compressed reads only from the CAS; malformed hash rejected")
h("VerifContains", D, GET, "1-2 entries, optional backend with arbitrary verdict and size", "Contains: exact, size limits, recency")
PG = "0-1 entries; backend: miss / error / error+reader / stream of any length failing at any byte; advertised size, requested size, offset, hard limit, backlog symbolic"
h("VerifProxyGetAC", D, GET, PG, "get through the backend (AC): miss, error or a complete hit; nothing cached or leaked otherwise", unwind=16)
h("VerifProxyGetCasRaw", D, GET, PG, "get through the backend (uncompressed CAS)", unwind=16)
h("VerifProxyGetCasZstd", D, GET, PG + "; fetched compressed blob has 45 arbitrary header bytes (2-entry table)", "get through the backend (compressed CAS)", unwind=16)
h("VerifProxyGetCasZstdShort", D, GET, "backend object with a valid finalised header (one chunk, table end symbolic 46..4 MiB) whose stream delivers a symbolic number of bytes (45..8 MiB) without error; Get or GetZstd, size known or unknown", "a compressed object whose stream ends early or runs on is neither served nor cached; a complete one is a hit", unwind=16)
h("VerifProxyGetCasZstdZ", D, GET, PG + "; as above", "GetZstd through the backend (compressed CAS)", unwind=16)

AC = ["zz_verif_ac.go"]
ACB = "ActionResult with <=%d output files (inline or not), <=1 output directory whose Tree has one root file and one child file, optional stdout/stderr digests; each referenced blob in the index or not, indexed and declared sizes symbolic; one unrelated entry"
h("VerifValidatedAC", D, AC, ACB % 1, "GetValidatedActionResult: hit iff every referenced blob is present with its declared size; absence is a miss, not an error; a hit touches every local referenced blob", unwind=16)
h("VerifValidatedACMixed", D, AC, "stored result with two output files: the first with inline contents, the second by digest (present with matching size, with another size, or absent)", "an inlined output file does not hide the dependency on a later output file", unwind=16)
h("VerifValidatedACDir", D, AC, "ActionResult with one output directory whose Tree has one root file and one child file, optional stdout/stderr", "as VerifValidatedAC (Tree path)", unwind=16)
h("VerifValidatedAC2", D, AC, "ActionResult with <=2 output files (each inline or by digest), optional stdout/stderr digests, no output directory; each referenced blob in the index or not, indexed and declared sizes symbolic", "as VerifValidatedAC (two files)", unwind=16)
h("VerifValidatedACProxy", D, AC, "one output file + optional stdout digest, backend with arbitrary verdict, 2 containsWorker goroutines + the wait goroutine, <=1 preemption, every choice of a ready select case explored", "hit only if every blob is local or vouched for by the backend (fail-fast search)", unwind=16, switches=1, timeout_s=1500, races=True)

FM = ["zz_verif_findmissing.go"]
FMB = "request of <=%d digests, each: indexed hash H0/H1 with symbolic stated size, unknown hash, or the empty blob; 2 indexed entries with symbolic sizes"
h("VerifFindMissing3", D, FM, FMB % 3, "FindMissingCasBlobs returns exactly the absent digests in order, duplicates preserved")
h("VerifFindMissing4", D, FM, FMB % 4, "as VerifFindMissing3")
h("VerifFindMissingProxy1", D, FM, (FMB % 1) + "; backend verdict per hash; 1 containsWorker goroutine + the wait goroutine, <=1 preemption, round-robin at blocking points", "as above with a backend", unwind=16, switches=1, races=True)
h("VerifFindMissingProxy2", D, FM, (FMB % 2) + "; backend; 2 containsWorker goroutines, <=2 preemptions", "as above with a backend", unwind=16, switches=2, timeout_s=3000)
h("VerifFindMissingBatch", D, FM, "21 digests: 1 symbolic, 19 empty-blob filler, 1 symbolic after the batch edge", "batch slicing at 20")
h("VerifFindMissingBatchProxy", D, FM, "21 digests with backend: first digest unknown locally (backend verdict symbolic), 19 empty-blob filler, last digest locally present or empty; 1 containsWorker, no preemption", "a batch without local misses after a batch with backend lookups still waits for them", unwind=16, switches=-1, races=True)
h("VerifFindMissingBatch2", D, FM, "21 digests with backend: 2 symbolic, 18 filler, 1 symbolic", "batch slicing at 20 with backend")
h("VerifFilterNonNil", D, FM, "<=4 entries, any nil pattern", "filterNonNil keeps order and drops exactly the nil entries", native=True)

VA = "./utils/validate"
VF = ["zz_verif_validate.go"]
h("VerifValidateFilesDirs", VA, VF, "<=1 output file, <=1 output directory (nil element or arbitrary), optional stdout/stderr digests; all paths and hashes arbitrary ASCII strings, sizes any int64", "validate.ActionResult accepts iff the independent well-formedness predicate holds", native=True, strings=True)
h("VerifValidateSymlinks", VA, VF, "<=1 element in each of the three symlink lists; paths/targets arbitrary ASCII strings", "as above for symlinks", native=True, strings=True)
h("VerifValidateNil", VA, VF, "-", "nil is rejected", native=True)

SV = "./server"
AU = ["zz_verif_auth.go"]
h("VerifGrpcBasicAuth", SV, AU, "FullMethod any ASCII string; metadata: none / no auth keys / :authority with arbitrary user and password / Basic header / malformed header; user known or not; password check arbitrary; unary and stream; allow_unauthenticated_reads on/off", "basic-auth interceptors invoke the handler without valid credentials only for the health check or (reads open) the six read-only methods", strings=True)
h("VerifGrpcBasicAuthAccepts", SV, AU, "any method, any non-empty user/password", "valid credentials are accepted", strings=True)
h("VerifGrpcMTLS", SV, AU, "FullMethod any ASCII string; peer: none / not TLS / TLS without verified chain / empty chain / verified chain; unary and stream", "mTLS interceptors", strings=True)

h("VerifHTTPAuthWiring", ".", ["zz_verif_main_auth.go"], "all 2^5 combinations of {htpasswd, mTLS, allow_unauthenticated_reads, endpoint metrics, idle timeout} that validateConfig admits; request to /status, /metrics or / (GET, HEAD, PUT) with Basic header present/absent, user known or not, password check arbitrary, TLS state none / unverified / verified", "startHttpServer wires every route behind the configured authentication", unwind=16)

h("VerifHTTPAuthWiringLDAP", ".", ["zz_verif_main_auth.go", "zz_verif_main_ldap.go"], "LDAP authentication x {allow_unauthenticated_reads, endpoint metrics, idle timeout}; request to /status, /metrics or / (GET, HEAD, PUT) with Authorization header absent / Basic user:pass / not base64 / without colon; directory server: user found or not, bind with the password accepted or not", "startHttpServer with LDAP: no request panics a handler or blocks it (served and refused outcomes are witnesses, not assertions: LDAP credential checking is outside C13)", unwind=16)

BS = ["zz_verif_bytestream.go"]
BSB = "upload to blobs/<hash>/5 in <=%d messages, each of symbolic length 0..8; first write_offset any int64; later resource names empty/same/changed; finish_write on the last message or not; stream ends with EOF or a transport error; blob pre-existing or not; stub cache accepts iff exactly the declared bytes arrive; 3 goroutines, <=2 preemptions, every ready select case explored"
h("VerifBytestreamWrite2", SV, BS, BSB % 2, "ByteStream.Write: committed_size, early return for existing blobs, refusal of malformed uploads, no goroutine left", unwind=24)
h("VerifBytestreamWrite3", SV, BS, BSB % 3, "as VerifBytestreamWrite2", unwind=24, timeout_s=1800)
h("VerifBytestreamWriteZstd2", SV, BS, "upload to compressed-blobs/zstd/<hash>/5 in <=2 messages of symbolic length; compressed stream decodes to a logical stream of symbolic length or is corrupt; first write_offset any int64; blob pre-existing or not", "ByteStream.Write (zstd): committed_size = bytes sent, -1 for existing blobs, acknowledgement only for a stored blob", unwind=24)
h("VerifQueryWriteStatus", SV, BS, "-", "QueryWriteStatus: complete with full size exactly when present")

KY = ["zz_verif_keys.go"]
h("VerifParseRequestURL", SV, KY, "instance any ASCII string without newline, hash any 64-hex string, ac/ or cas/, validation on/off", "parseRequestURL(/I/kind/hash) = (kind, hash, I): unique regex decomposition under leftmost-first", strings=True)
h("VerifParseRequestURLAccepts", SV, KY, "any ASCII URL path", "accepted URLs end in (ac|cas)/<64 hex>", strings=True)
h("VerifGrpcACKeyMangling", SV, KY, "two GetActionResult requests with arbitrary ASCII hash and instance_name strings; sha256 injective", "accepted requests share a key only if (hash, instance) agree; empty instance leaves the key unchanged; mangling off ignores the instance", strings=True)
h("VerifHTTPGrpcSameKey", SV, KY, "instance any ASCII string without newline, hash any 64-hex string, mangling on/off", "HTTP GET /I/ac/h and gRPC GetActionResult(I,h) use the same cache key", strings=True)
h("VerifLookupKey", SV, KY, "two arbitrary 64-hex hashes, all kind pairs", "LookupKey is injective and key spaces are disjoint", strings=True)

LD = ["zz_verif_load.go"]
LDB = "<=%d files (AC raw, compressed CAS with size in the name, legacy .v1 CAS), file sizes, access times (distinct) and max_size symbolic; real worker goroutines, no preemption (round-robin at blocking points)"
h("VerifLoad2", D, LD, LDB % 2, "start-up succeeds; survivors = the most recently accessed files that fit (files larger than max_size dropped and deleted); accounting and recency order match", unwind=24, switches=-1)
h("VerifLoad3", D, LD, LDB % 3, "as VerifLoad2", unwind=24, switches=-1, timeout_s=1800)
h("VerifLoadDup", D, LD, "1-2 files plus a second file for the key of the first (duplicate key), sizes/atimes/max_size symbolic", "duplicate files for one key: the newest that fits is kept, the other deleted, files that fit are not lost", unwind=24, switches=-1)
h("VerifLoadDupCas", D, LD, "one AC file and two compressed CAS files of one key (logical size from the name, file lengths symbolic), access times symbolic and distinct", "duplicate compressed files of one key after an interrupted overwrite: one survives, accounting matches the directory", unwind=24, switches=-1)
h("VerifLoadExtras", D, LD, "one file plus lost+found directories or .DS_Store files", "harmless extra directory entries are ignored", unwind=24, switches=-1)

CS = ["zz_verif_cas.go"]
h("VerifBatchUpdateBlobs", SV, CS, "one request: compressor identity / zstd / any other value; declared size, data length, decoded length symbolic; bytes are the blob or not; decode fails or not; cache Put fails with 507 or not", "BatchUpdateBlobs acknowledges (status OK) only a blob of the declared digest that was stored", unwind=16)
h("VerifBatchReadBlobs", SV, CS, "one digest; cache answers miss / error / stream of any length with any size", "BatchReadBlobs: OK only with matching size, data = the bytes read, reader closed", unwind=16)
h("VerifGetTree", SV, CS, "root Directory with <=2 child nodes: no digest / valid digest with any size / malformed hash / existing empty child", "GetTree never panics on a stored Directory", unwind=16)

CR = ["zz_verif_crash.go", "zz_verif_put.go"]
CRB = "one well-formed upload (size <= 2 MiB) into an empty cache, killed at file-system step k (k = 1..%d, or not at all; a killed write leaves an arbitrary prefix); restart with the real loader; read with size known or unknown"
h("VerifCrashPutCasRaw", D, CR, CRB % 8, "kill during an upload (uncompressed CAS): restart succeeds, acknowledged data served, nothing torn served", unwind=24, switches=-1)
h("VerifCrashPutAC", D, CR, CRB % 8, "kill during an upload (AC)", unwind=24, switches=-1)
h("VerifCrashPutCasZstd", D, CR, CRB % 14, "kill during an upload (compressed CAS): restart succeeds, sizes agree; a file whose table is not finalised is rejected by readHeader", unwind=24, switches=-1)
h("VerifCrashPutCasZstdBad", D, CR, CRB % 14 + "; the stream has the declared length but differs from the blob at a symbolic byte", "kill during an upload that is being refused (wrong bytes, compressed CAS): never acknowledged, never served after the restart", unwind=24, switches=-1)
h("VerifCrashFetchCasZstd", D, CR, "backend fetch of a 1 500 000-byte blob in compressed CAS mode, casblob file of symbolic length 46..4 MiB with a valid finalised header, killed at step 0..8 with an arbitrary prefix of the interrupted write on disk; restart; read raw or as zstd, size known or unknown", "kill during a backend fetch: restart succeeds, a file cut short is never served, a completed fetch is served", unwind=24, switches=-1)
h("VerifCrashOverwriteAC", D, CR, "an AC key with a complete value (symbolic size) is overwritten by a well-formed upload (<= 2 MiB), killed at file-system step 0..9 (the background remover's unlink included); restart with the real loader; read with size known or unknown", "kill during an overwrite: restart succeeds; one whole version is served - the new one if the overwrite was acknowledged; the key is not lost", unwind=24, switches=-1)
h("VerifCrashFetchCasRaw", D, CR, "backend fetch of a blob of symbolic size 46..4 MiB stored uncompressed, killed at step 0..8 with an arbitrary prefix of the interrupted write on disk; restart; read with size known or unknown", "kill during a backend fetch (uncompressed CAS)", unwind=24, switches=-1)
h("VerifCrashFetchAC", D, CR, "as VerifCrashFetchCasRaw for an action-cache entry", "kill during a backend fetch (AC)", unwind=24, switches=-1)

CC = ["zz_verif_conc.go", "zz_verif_put.go"]
CCB = "two goroutines, <= %d preemptions at mutex acquisitions / file-system steps / channel operations (round-robin at blocking points); sizes symbolic"
h("VerifConcReadersCorrupt", D, CC, CCB % 2 + "; 1..2 entries, the one read is too short to hold a header", "two concurrent readers of a corrupt entry: not served, dropped once, accounting and directory exact at quiescence", unwind=24, switches=2, races=True)
h("VerifConcReadOverwrite", D, CC, CCB % 2 + "; one AC entry, reader with known or unknown size, overwriting upload of 1..2^30 bytes", "a reader concurrent with an overwrite gets a miss or one whole version; C03/C04 at quiescence; no goroutine or file left", unwind=24, switches=2, races=True)
h("VerifConcReadOverwriteEvict", D, CC, CCB % 2 + "; one AC entry, reader with known or unknown size, overwriting upload, the background remover as a third goroutine (one batch), no space pressure", "as VerifConcReadOverwrite, including the slow path taken when the replaced file vanishes between index lookup and open", unwind=24, switches=2, races=True)
h("VerifConcCorruptReadPut", D, CC, CCB % 2 + "; one corrupt compressed CAS entry, a reader and a re-upload of the same blob", "dropping a corrupt entry concurrently with its replacement keeps index, accounting and directory consistent", unwind=24, switches=2, races=True)
h("VerifConcPutPut", D, CC, CCB % 1 + "; empty cache, two uploads of one AC key, 1..2^30 bytes each, no space pressure", "two concurrent uploads of one key: one whole acknowledged version survives; C03/C04 at quiescence", unwind=24, switches=1, races=True)
h("VerifConcPutPutDeep", D, CC, CCB % 2 + "; 0..1 prior entries, two uploads of one AC key, 1..2^30 bytes each, no space pressure", "as VerifConcPutPut", unwind=24, switches=2, timeout_s=1500, races=True)
h("VerifConcReadOverwriteDeep", D, CC, CCB % 3 + "; one AC entry, reader with known or unknown size, overwriting upload, no space pressure; Mutex.Unlock is a preemption point as well", "as VerifConcReadOverwrite", unwind=24, switches=3, yield_unlock=True, timeout_s=1500, races=True)

h("VerifTempfileCreate", "./utils/tempfile", ["zz_verif_tempfile.go"], "four generator states, legacy suffix or not, the first 0..3 candidate names already taken", "tempfile.Create returns a new, empty file and the random string that is part of exactly that file's name, also after name collisions", unwind=16)

CF = "./config"
CFF = ["zz_verif_config.go"]
h("VerifFlagsYamlAgree", CF, ["zz_verif_frontends.go"], "one set of explicit settings (sizes, limits, uploader counts, timeouts symbolic; booleans symbolic; storage mode, zstd implementation, log settings, listener addresses in modern or deprecated host/port form from small fixed sets; no TLS/auth/backend settings) given as flags and as a YAML document; urfave/cli and yaml.v3 replaced by identity models", "flags and YAML yield the same verdict and the same effective configuration (basic fields), including the deprecated host/port forms", strings=True)
h("VerifValidateConfigRefuses", CF, CFF, "14 invalid classes, one at a time; the settings of the class arbitrary within it, the sizes, the TLS/htpasswd file settings and allow_unauthenticated_reads arbitrary, the remaining settings fixed valid values", "validateConfig returns an error for every completion of the other settings", strings=True)
h("VerifValidateConfigAccepts", CF, CFF, "-", "a minimal sane configuration is accepted; the same with a port conflict is refused", strings=True)

ACH = ["zz_verif_ac.go"]
h("VerifUpdateActionResult", SV, ACH, "UpdateActionResult with one of 13 defect classes or none; inline stdout / output-file contents of symbolic length 1..4 MiB with or without digest; worker name given or not; every cache Put succeeds", "an invalid ActionResult is refused and stores nothing; an accepted one is stored once under its key as the serialisation of the uploaded message (worker filled in), inline bytes also stored in the CAS under their digest", unwind=16)
h("VerifUpdateActionResultKey", SV, ACH, "key mangling on; seven client hash strings (one well formed; prefixed, truncated, non-hex, empty, over-long), three instance names", "UpdateActionResult validates the hash before mangling: malformed keys are refused and store nothing, well-formed ones are stored under TransformActionCacheKey(hash, instance)", unwind=16)
h("VerifGetActionResultInline", SV, ACH, "stored result with stdout and one output file, each inline (1..4 MiB symbolic) or by digest (1..4 MiB symbolic, blob available); inline_stdout / inline_output_files requested or not; de-inlining Puts succeed", "GetActionResult: total inlined bytes <= 3 MiB budget, inlined bytes are the blob / the stored bytes, de-inlined only after storing under the true digest", unwind=16)
h("VerifGetActionResultMiss", SV, ACH, "-", "validated miss maps to NotFound; nil request / digest rejected")

h("VerifBytestreamRead", SV, ["zz_verif_bsread.go"], "blobs/<h>/5000000 (three 2 MiB messages); read_offset and read_limit any int64; blob present or absent; cache reader with or without one short read; client gone at the 1st..3rd Send or not", "ByteStream.Read sends exactly [offset,n) in order, never more than a non-zero read_limit; OutOfRange/NotFound mapping; reader closed", unwind=16)
h("VerifFetchBlob", SV, ["zz_verif_asset.go"], "one URI, sha256 checksum qualifier given or not, blob cached (symbolic size) or not; origin: transport error / 404 / 200 with a body of symbolic length 1..2^30 that is or is not the requested blob, Content-Length known or -1; max_blob_size symbolic", "FetchBlob acknowledges only a cached blob or fetched bytes stored under the digest they really have (the requested one if a checksum was given); size limit; body closed", unwind=16)
h("VerifSpliceBlob", SV, ["zz_verif_splice.go"], "two chunks of symbolic sizes 1..2^30, each present or absent; declared size, max_blob_size symbolic; the cache has room, refuses without reading (507), or already holds the blob; the concatenation is or is not the declared blob", "SpliceBlob acknowledges only a stored concatenation of the right size and digest; size limit; no goroutine or chunk reader left on any return", unwind=16)
HT = ["zz_verif_http.go", "zz_verif_ac.go"]
h("VerifHTTPGet", SV, HT, "GET /cas/<h> or /ac/<h> (raw), Accept-Encoding with or without zstd, cache answers miss / error / stream of symbolic size", "HTTP GET: the read goes to the URL's namespace, compressed reads only from the CAS, body = the blob, Content-Length = size", unwind=16)
h("VerifHTTPPut", SV, HT, "PUT /cas/<h> or /ac/<h> (raw): Content-Length, body length, max_blob_size symbolic; Content-Encoding none/identity/zstd/other; zstd body decodes to a symbolic length or is corrupt; cache Put fails with 507 or not", "HTTP PUT acknowledges only an upload stored under the declared size; size limit; 507 mapping", unwind=16)
h("VerifHTTPClientCert", SV, HT, "GET/HEAD/PUT of a CAS blob; reads-flag and writes-flag each on or off; connection plain, TLS without chains, TLS with an empty chain, TLS with a verified certificate", "client certificates on the HTTP front end: reads gated by the reads flag, PUT by the writes flag; a refused request is 401 and never reaches the cache")
h("VerifHTTPInstanceName", SV, HT, "GET /<instance>/ac/<h> with key mangling on, six instance names (empty, plain, nested, with a space, containing ac/blobs segments, with a percent sign)", "the HTTP front end mangles the action key with the instance name exactly as TransformActionCacheKey does for gRPC")
h("VerifHTTPPutAC", SV, HT, "validated PUT /ac/<h>: body 1..4096 bytes, wire or JSON, declared JSON or not, plain or zstd-wrapped, parses or not, one of 13 defect classes or none, worker given or not", "HTTP AC upload: invalid / unparseable / wrongly-typed bodies are client errors that store nothing; accepted ones are stored once as the wire serialisation of the uploaded message", unwind=16)

# property -> (quick harnesses, additional thorough harnesses, assumptions, outside)
CODEC = "zstd codec replaced by a contract stub: frames self-delimiting, Decode(Encode(x)) = x, anything else fails"
HASH = "sha256 replaced by a provenance model: collision-free, digest equals the declared hash iff the hashed bytes are exactly the declared blob"
FSM = "file system model with process-kill semantics (writes visible in program order); one read of a regular file returns all that is available"
STUBS = ["prometheus, log: empty bodies", "fmt.Errorf / errors.Is modelled (text opaque, %w kept)", "time.Now fixed"]
P = {
 "C01": (["VerifWriteZstd2", "VerifPutCasZstd", "VerifPutCasRaw", "VerifPutAC", "VerifBatchUpdateBlobs", "VerifBytestreamWrite2", "VerifBytestreamWriteZstd2", "VerifHTTPPut", "VerifSpliceBlob", "VerifFetchBlob"], ["VerifWriteZstd3", "VerifWriteIdentity", "VerifPutCasZstdProxy", "VerifPutCasRawProxy"],
         [CODEC, HASH, FSM], ["real sha256 and zstd", "blobs of more than 3 chunks", "the HTTP/gRPC transports' own length enforcement"]),
 "C02": (["VerifReadUncompressed4", "VerifReadZstd4", "VerifReadIdentity", "VerifReadWrongSize", "VerifGetCasZstd", "VerifGetCasZstdAsZstd", "VerifGetCasRaw", "VerifGetAC", "VerifGetSpecial", "VerifHTTPGet", "VerifBatchReadBlobs", "VerifBytestreamRead"],
         ["VerifReadUncompressed6", "VerifReadZstd6", "VerifGetCasRawAsZstd"], [CODEC, FSM], ["that a standard zstd decoder decodes the frames", "tables of more than 6 entries", "read offsets beyond the blob when the size is not given"]),
 "C03": (["VerifLRULemmas", "VerifLRUAdd3", "VerifLRUReserve3", "VerifLRUUnreserve", "VerifLRUGet", "VerifLRURemove", "VerifPutAC", "VerifGetAC", "VerifProxyGetAC"],
         ["VerifLRUAdd4", "VerifLRUReserve4", "VerifPutCasZstd", "VerifPutCasRaw", "VerifGetCasZstd", "VerifProxyGetCasRaw"], [FSM, CODEC, HASH], ["more live entries than the bound in one step", "sizes >= 2^61", "interleavings (C07)"]),
 "C04": (["VerifPutCasRaw", "VerifPutAC", "VerifGetAC", "VerifGetCasRaw", "VerifProxyGetAC", "VerifProxyGetCasZstd", "VerifLRUAdd3", "VerifLRURemove", "VerifTempfileCreate"],
         ["VerifPutCasZstd", "VerifPutCasZstdProxy", "VerifGetCasZstd", "VerifProxyGetCasRaw", "VerifProxyGetCasZstd"], [FSM, CODEC, HASH], ["files created by anything other than bazel-remote", "directory fsync"]),
 "C05": (["VerifLRUAdd3", "VerifLRUReserve3", "VerifLRUGet", "VerifGetAC", "VerifContains", "VerifFindMissing3", "VerifProxyGetAC"], ["VerifLRUAdd4", "VerifLRUReserve4", "VerifGetCasZstd", "VerifGetCasRaw"], [FSM], ["atime order after restart (C09)", "more live entries than the bound"]),
 "C06": (["VerifValidatedAC", "VerifValidatedACMixed", "VerifValidatedACDir", "VerifValidatedACProxy", "VerifGetActionResultMiss"], ["VerifValidatedAC2"], [FSM, "proto.Unmarshal by identity: stored bytes decode to the registered message"], ["real protobuf decoding", "races between the check and a concurrent eviction"]),
 "C07": (["VerifConcReadersCorrupt", "VerifConcReadOverwrite", "VerifConcReadOverwriteEvict", "VerifConcPutPut", "VerifConcCorruptReadPut", "VerifFindMissingProxy1", "VerifFindMissingBatchProxy", "VerifBytestreamWrite2"], ["VerifConcPutPutDeep", "VerifConcReadOverwriteDeep", "VerifValidatedACProxy"], [FSM, HASH, CODEC, "sequentially consistent interleaving of goroutines at the scheduling points (mutex acquisition, file-system step, channel operation, go statement); a blocked goroutine hands over round-robin"],
         ["data races on the abstract byte objects and inside the environment models (the happens-before obligations cover pointer loads/stores and map operations of repository and dependency code; weak-memory effects are not modelled)", "more than three goroutines per scenario, more preemptions than the bound, round-robin hand-over at blocking points", "evictions under space pressure and backend fetches racing with requests", "handlers above the disk layer other than ByteStream.Write and the FindMissing/validated-AC worker pool"]),
 "C08": (["VerifCrashPutCasRaw", "VerifCrashPutAC", "VerifCrashPutCasZstd", "VerifCrashPutCasZstdBad", "VerifCrashFetchCasZstd", "VerifCrashFetchCasRaw", "VerifCrashFetchAC"], ["VerifCrashOverwriteAC"], [FSM, HASH, CODEC], ["power loss, write reordering, fsync (process-kill semantics only)", "kill during start-up migration", "kill during eviction under space pressure; overwrites only for an AC key"]),
 "C09": (["VerifLoad2", "VerifLoadDup", "VerifLoadDupCas", "VerifLoadExtras", "VerifGetCasRawInZstdMode", "VerifGetCasZstdInRawMode"], ["VerifLoad3", "VerifGetCasRawInZstdModeAsZstd", "VerifGetCasZstdInRawModeAsZstd"], [FSM, "access times are the model's (distinct) integers"], ["real readdir order and atime semantics (relatime)", "legacy v0/v1 layouts (migration code is executed only on a current layout)", "more than 3 files", "schedules other than round-robin"]),
 "C10": (["VerifFindMissing3", "VerifFindMissingProxy1", "VerifFindMissingBatch", "VerifFindMissingBatchProxy", "VerifFilterNonNil", "VerifContains", "VerifProxyGetCasZstd"], ["VerifFindMissing4", "VerifFindMissingProxy2", "VerifFindMissingBatch2"], ["the backend is an arbitrary per-hash verdict"], ["hundreds of digests with all states symbolic", "512 real workers", "more than 2 preemptive context switches"]),
 "C11": (["VerifValidateFilesDirs", "VerifValidateSymlinks", "VerifValidateNil", "VerifGetActionResultInline", "VerifGetActionResultMiss", "VerifUpdateActionResult", "VerifHTTPPutAC"], [], ["strings are ASCII (Go byte strings and SMT code-point strings agree there)"], ["field-by-field fidelity of proto.Marshal/Unmarshal and protojson", "non-ASCII strings"]),
 "C12": (["VerifProxyGetAC", "VerifProxyGetCasRaw", "VerifProxyGetCasZstd", "VerifProxyGetCasZstdShort", "VerifPutRawProxy"], ["VerifProxyGetCasZstdZ", "VerifPutCasZstdProxy", "VerifPutCasRawProxy"], [FSM, CODEC, HASH, "the backend is an arbitrary cache.Proxy stub"], ["minio/azure/gcs SDK calls", "real HTTP body semantics"]),
 "C13": (["VerifGrpcBasicAuth", "VerifGrpcBasicAuthAccepts", "VerifGrpcMTLS", "VerifHTTPAuthWiring", "VerifHTTPClientCert"], [], ["auth.CheckSecret is an arbitrary predicate", "strings are ASCII"], ["htpasswd hash checking, TLS handshake and certificate verification, LDAP", "whether grpc-go calls the interceptors for every method"]),
 "C14": (["VerifReadArbitrary2", "VerifReadZstd4", "VerifReadUncompressed4", "VerifGetCasZstd", "VerifGetSpecial", "VerifGetTree", "VerifBatchReadBlobs", "VerifBytestreamWrite2", "VerifFindMissingProxy1", "VerifValidatedACProxy", "VerifSpliceBlob", "VerifFetchBlob", "VerifHTTPAuthWiringLDAP"], ["VerifReadArbitrary3", "VerifGetCasZstdAsZstd", "VerifGetCasRawAsZstd", "VerifProxyGetCasZstd"], [FSM, CODEC], ["panics inside stubbed libraries", "resource exhaustion by volume"]),
 "C15": (["VerifGrpcACKeyMangling", "VerifLookupKey", "VerifGetSpecial", "VerifHTTPGet", "VerifHTTPInstanceName", "VerifUpdateActionResultKey"], [], ["sha256 is injective on byte strings (digest texts are fresh 64-hex strings with pairwise (content equal <=> digest equal))", "strings are ASCII", "disk.Cache replaced by a recording stub"], ["sha256 itself", "non-ASCII instance names", "isolation after eviction (C03/C04)", "the HTTP path-prefix clause: harnesses VerifParseRequestURL / VerifHTTPGrpcSameKey exist but no solver decides 'every URL /I/ac/h matches ^/?(.*/)?(ac/|cas/)([a-f0-9]{64})$ with instance I' within budget (cvc5 and z3 time out at 60 s even with |I| <= 6), so the URL grammar is not claimed"]),
 "C16": (["VerifBytestreamWrite2", "VerifBytestreamWriteZstd2", "VerifQueryWriteStatus"], ["VerifBytestreamWrite3"], ["disk.Cache replaced by a contract stub (Put consumes the reader and accepts exactly the declared bytes)"], ["grpc-go's own stream behaviour", "more than 3 messages", "more than 2 preemptive context switches"]),
 "C17": (["VerifLRUReserve3", "VerifLRURemove", "VerifLRUAdd3", "VerifPutAC", "VerifProxyGetAC"], ["VerifLRUReserve4", "VerifPutCasZstd", "VerifPutCasRaw", "VerifProxyGetCasRaw"], [FSM], ["real unlink latency"]),
 "C18": (["VerifPutAC", "VerifPutCasRaw", "VerifContains", "VerifProxyGetAC", "VerifBatchUpdateBlobs", "VerifBytestreamWrite2", "VerifHTTPPut", "VerifFindMissingBatchProxy", "VerifSpliceBlob", "VerifFetchBlob"], ["VerifPutCasZstd", "VerifProxyGetCasRaw", "VerifProxyGetCasZstd"], [FSM, HASH], ["transport-level message size limits"]),
 "C19": (["VerifValidateConfigRefuses", "VerifValidateConfigAccepts", "VerifFlagsYamlAgree"], [], ["net.SplitHostPort modelled by its contract (host:port / [host]:port)", "strings are ASCII"], ["the flags-versus-YAML agreement clause (urfave/cli and yaml.v3 are outside reach; F13/F14 candidates of DESIGN section 1 are not decided)", "environment-variable resolution", "setTLSConfig / setProxy / setLogger"]),
 "C20": (["VerifWriteZstd2", "VerifReadUncompressed4", "VerifReadZstd4", "VerifReadIdentity", "VerifGetCasRawInZstdMode", "VerifGetCasZstdInRawMode", "VerifProxyGetCasZstd"], ["VerifWriteZstd3", "VerifReadUncompressed6", "VerifReadZstd6", "VerifGetCasRawInZstdModeAsZstd", "VerifGetCasZstdInRawModeAsZstd"], [CODEC, FSM], ["that chunk payloads are standard zstd frames", "files with more table entries than the bound"]),
}

# witnesses that only some variants of a shared harness body can reach
OPTW = {
 "C01": ["write-identity-accepted"],
 "C20": ["write-identity-accepted"],
}

def main():
    here = os.path.dirname(os.path.abspath(__file__))
    extra = os.path.join(here, "registry_extra.py")
    if os.path.exists(extra):
        exec(open(extra).read(), globals())
    out = []
    for pid in sorted(P):
        q, t, assume, outside = P[pid]
        entries = []
        for name in q:
            e = dict(H[name]); e["tier"] = "quick"; entries.append(e)
        for name in t:
            e = dict(H[name]); e["tier"] = "thorough"; entries.append(e)
        out.append({"id": pid, "entries": entries, "assumptions": assume + STUBS, "outside": outside, "optional_witnesses": OPTW.get(pid, [])})
    json.dump(out, open(os.path.join(here, "..", "harness", "registry.json"), "w"), indent=1)
    print("registry: %d properties, %d harnesses" % (len(out), len(H)))

if __name__ == "__main__":
    main()
