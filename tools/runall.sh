#!/bin/sh
# usage: tools/runall.sh quick|thorough [props...]
# Runs the registered checks one after the other, as MANIFEST.json registers
# them, and prints one summary line per property.
cd "$(dirname "$0")/.." || exit 2
tier="${1:-quick}"; shift
props="$*"
[ -n "$props" ] || props="C01 C02 C03 C04 C05 C06 C07 C08 C09 C10 C11 C12 C13 C14 C15 C16 C17 C18 C19 C20"
mkdir -p .work/runall
for p in $props; do
  t0=$(date +%s)
  ./bin/check $p $tier > .work/runall/$p.$tier.log 2>&1
  rc=$?
  t1=$(date +%s)
  echo "$p $tier exit=$rc wall=$((t1-t0))s $(grep -c '^KNOWN-FINDING' .work/runall/$p.$tier.log) known-finding line(s) $(grep -c '^VIOLATION' .work/runall/$p.$tier.log) violation line(s) $(grep -c 'INCONCLUSIVE' .work/runall/$p.$tier.log) inconclusive"
done
