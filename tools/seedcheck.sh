#!/bin/sh
# usage: tools/seedcheck.sh <patch.diff> <property> [quick|thorough] [extra gosmx args]
# Applies a seeded change to /repo, runs the property's check, undoes the change.
cd "$(dirname "$0")/.." || exit 2
patch="$(readlink -f "$1")"; prop="$2"; tier="${3:-quick}"; shift 3 2>/dev/null
git -C /repo diff --quiet || { echo "/repo has uncommitted changes"; exit 2; }
git -C /repo apply "$patch" || { echo "patch does not apply"; exit 2; }
./bin/gosmx check -prop "$prop" -tier "$tier" -no-evidence "$@" > .work/seed.out 2>&1
rc=$?
git -C /repo checkout -- .
grep -v "no recorded" .work/seed.out | cut -c1-330 | grep -v "^   " | tail -12
echo "exit=$rc"
