package config

// H18 (part A): validateConfig refuses every set-up that cannot work or would
// be unsafe, whatever the other settings are (C19). String mode.

import (
	"net/url"

	"github.com/buchgr/bazel-remote/v2/zzverif/vsym"
)

// vBaseConfig: a sane configuration in which the settings the invalid class
// does not mention keep fixed valid values, except a few that are arbitrary
// (so that the class is refused whatever they are).
func vBaseConfig() *Config {
	c := &Config{
		HTTPAddress:        "localhost:8080",
		GRPCAddress:        "localhost:9092",
		Dir:                "/data",
		MaxSize:            vsym.Int("max_size"),
		StorageMode:        "zstd",
		ZstdImplementation: "go",
		MaxBlobSize:        vsym.Int64("max_blob_size"),
		MaxProxyBlobSize:   vsym.Int64("max_proxy_blob_size"),
		AccessLogLevel:     "all",
		LogTimezone:        "UTC",
		HtpasswdFile:       vsym.Str("htpasswd_file"),
		TLSCaFile:          vsym.Str("tls_ca_file"),
		TLSCertFile:        vsym.Str("tls_cert_file"),
		TLSKeyFile:         vsym.Str("tls_key_file"),
		AllowUnauthenticatedReads: vsym.Bool("allow_unauthenticated_reads"),
	}
	return c
}

func vBackends(c *Config, n int) {
	// the first n of: http, grpc, gcs, s3, azblob
	if n > 0 {
		c.HTTPBackend = &URLBackendConfig{BaseURL: &url.URL{Scheme: "http", Host: "h"}}
	}
	if n > 1 {
		c.GRPCBackend = &URLBackendConfig{BaseURL: &url.URL{Scheme: "grpc", Host: "h"}}
	}
	if n > 2 {
		c.GoogleCloudStorage = &GoogleCloudStorageConfig{Bucket: "b"}
	}
}

func VerifValidateConfigRefuses() {
	c := vBaseConfig()
	switch vsym.Choose("class", 14) {
	case 0:
		vsym.Fact("class", "missing dir")
		c.Dir = ""
	case 1:
		vsym.Fact("class", "missing or non-positive max_size")
		vsym.Assume(c.MaxSize <= 0)
	case 2:
		vsym.Fact("class", "unknown storage mode")
		c.StorageMode = vsym.Str("storage_mode")
		vsym.Assume(c.StorageMode != "zstd")
		vsym.Assume(c.StorageMode != "uncompressed")
	case 3:
		vsym.Fact("class", "unknown zstd implementation")
		c.ZstdImplementation = vsym.Str("zstd_implementation")
		vsym.Assume(c.ZstdImplementation != "go")
		vsym.Assume(c.ZstdImplementation != "cgo")
	case 4:
		vsym.Fact("class", "http and grpc on one port")
		port := vsym.Str("port")
		vsym.Assume(vsym.Matches(port, "^[0-9]+$"))
		h1, h2 := vsym.Str("host1"), vsym.Str("host2")
		vsym.Assume(vsym.Matches(h1, "^[a-z0-9.]*$"))
		vsym.Assume(vsym.Matches(h2, "^[a-z0-9.]*$"))
		c.HTTPAddress = h1 + ":" + port
		c.GRPCAddress = h2 + ":" + port
	case 5:
		vsym.Fact("class", "tls cert without key")
		vsym.Assume(c.TLSCertFile != "")
		vsym.Assume(c.TLSKeyFile == "")
	case 6:
		vsym.Fact("class", "tls key without cert")
		vsym.Assume(c.TLSCertFile == "")
		vsym.Assume(c.TLSKeyFile != "")
	case 7:
		vsym.Fact("class", "mTLS without server certificate")
		vsym.Assume(c.TLSCaFile != "")
		vsym.Assume(c.TLSCertFile == "")
	case 8:
		vsym.Fact("class", "unauthenticated reads without authentication")
		vsym.Assume(c.AllowUnauthenticatedReads)
		vsym.Assume(c.TLSCaFile == "")
		vsym.Assume(c.HtpasswdFile == "")
	case 9:
		vsym.Fact("class", "more than one proxy backend")
		vBackends(c, 2+vsym.Choose("backends", 2))
	case 10:
		vsym.Fact("class", "non-positive blob limit")
		if vsym.Choose("which", 2) == 0 {
			vsym.Assume(c.MaxBlobSize <= 0)
		} else {
			vsym.Assume(c.MaxProxyBlobSize <= 0)
		}
	case 11:
		vsym.Fact("class", "malformed listener address")
		// neither [host]:port nor unix://path
		c.HTTPAddress = vsym.Str("http_address")
		vsym.Assume(vsym.Not(vsym.HasPrefix(c.HTTPAddress, "unix://")))
		vsym.Assume(vsym.Not(vsym.Contains(c.HTTPAddress, ":")))
	case 12:
		vsym.Fact("class", "malformed gRPC listener address")
		// whatever kind of HTTP listener is configured
		c.HTTPAddress = []string{"localhost:8080", "unix:///run/http.sock", ":8080"}[vsym.Choose("http-listener", 3)]
		c.GRPCAddress = vsym.Str("grpc_address")
		vsym.Assume(c.GRPCAddress != "")
		vsym.Assume(c.GRPCAddress != "none")
		vsym.Assume(vsym.Not(vsym.HasPrefix(c.GRPCAddress, "unix://")))
		vsym.Assume(vsym.Not(vsym.Contains(c.GRPCAddress, ":")))
	case 13:
		vsym.Fact("class", "malformed profiling listener address")
		c.HTTPAddress = []string{"localhost:8080", "unix:///run/http.sock"}[vsym.Choose("http-listener", 2)]
		c.ProfileAddress = vsym.Str("profile_address")
		vsym.Assume(c.ProfileAddress != "")
		vsym.Assume(c.ProfileAddress != "none")
		vsym.Assume(vsym.Not(vsym.HasPrefix(c.ProfileAddress, "unix://")))
		vsym.Assume(vsym.Not(vsym.Contains(c.ProfileAddress, ":")))
	}
	err := validateConfig(c)
	vsym.Reach("validate-config-returned")
	vsym.Assert(err != nil, "config/C19-invalid-set-up-is-refused-at-start")
}

// a minimal sane configuration is accepted (vacuity guard for the harness above)
func VerifValidateConfigAccepts() {
	c := &Config{HTTPAddress: "localhost:8080", GRPCAddress: "localhost:9092", Dir: "/d", MaxSize: 1, StorageMode: "zstd",
		ZstdImplementation: "go", MaxBlobSize: 1, MaxProxyBlobSize: 1, AccessLogLevel: "all", LogTimezone: "UTC"}
	vsym.Reach("sane-config")
	vsym.Assert(validateConfig(c) == nil, "config/C19-sane-configuration-accepted")
	c.GRPCAddress = "localhost:8080"
	vsym.Assert(validateConfig(c) != nil, "config/C19-port-conflict-refused")
}
