package config

// H18 (part B): one set of explicitly given settings, once as command-line
// flags (config.get) and once as a YAML document (NewFromYaml): the effective
// configuration is the same, including the deprecated host/port forms (C19).
// The flag library and the YAML parser are replaced by identity models.

import (
	"time"

	"github.com/urfave/cli/v2"

	"github.com/buchgr/bazel-remote/v2/zzverif/vmodel"
	"github.com/buchgr/bazel-remote/v2/zzverif/vsym"
)

func VerifFlagsYamlAgree() {
	// ---- the settings, all given explicitly
	dir := "/data"
	maxSize := vsym.Int("max_size")
	hard := vsym.Int("max_size_hard_limit")
	maxBlob := vsym.Int64("max_blob_size")
	maxProxyBlob := vsym.Int64("max_proxy_blob_size")
	uploaders := vsym.Int("num_uploaders")
	queued := vsym.Int("max_queued_uploads")
	storage := []string{"zstd", "uncompressed"}[vsym.Choose("storage_mode", 2)]
	impl := []string{"go", "cgo"}[vsym.Choose("zstd_implementation", 2)]
	logLevel := []string{"all", "none"}[vsym.Choose("access_log_level", 2)]
	tz := []string{"UTC", "local", "none"}[vsym.Choose("log_timezone", 3)]
	bDisableHTTPAC := vsym.Bool("disable_http_ac_validation")
	bDisableDeps := vsym.Bool("disable_grpc_ac_deps_check")
	bMangle := vsym.Bool("enable_ac_key_instance_mangling")
	bMetrics := vsym.Bool("enable_endpoint_metrics")
	bAsset := vsym.Bool("experimental_remote_asset_api")
	idle := time.Duration(vsym.Int64("idle_timeout"))
	rt := time.Duration(vsym.Int64("http_read_timeout"))
	wt := time.Duration(vsym.Int64("http_write_timeout"))

	deprecated := vsym.Choose("listener-form", 2) == 1
	var httpAddr, grpcAddr, profAddr, host, profHost string
	var port, grpcPort, profPort int
	if deprecated {
		host = []string{"", "10.0.0.1"}[vsym.Choose("host", 2)]
		port = []int{8080, 9090}[vsym.Choose("port", 2)]
		grpcPort = []int{0, 9092}[vsym.Choose("grpc_port", 2)]
		profHost = []string{"", "127.0.0.1"}[vsym.Choose("profile_host", 2)]
		profPort = []int{0, 7070}[vsym.Choose("profile_port", 2)]
	} else {
		httpAddr = []string{"0.0.0.0:8080", ":8080"}[vsym.Choose("http_address", 2)]
		grpcAddr = []string{"0.0.0.0:9092", "none"}[vsym.Choose("grpc_address", 2)]
		profAddr = []string{"127.0.0.1:7070", ":6060", "none"}[vsym.Choose("profile_address", 3)]
	}

	// ---- as flags
	vmodel.FlagStr = map[string]string{"dir": dir, "storage_mode": storage, "zstd_implementation": impl,
		"http_address": httpAddr, "grpc_address": grpcAddr, "profile_address": profAddr, "host": host, "profile_host": profHost,
		"access_log_level": logLevel, "log_timezone": tz, "min_tls_version": "1.0"}
	vmodel.FlagInt = map[string]int{"max_size": maxSize, "max_size_hard_limit": hard, "port": port, "grpc_port": grpcPort, "profile_port": profPort,
		"num_uploaders": uploaders, "max_queued_uploads": queued}
	vmodel.FlagI64 = map[string]int64{"max_blob_size": maxBlob, "max_proxy_blob_size": maxProxyBlob}
	vmodel.FlagBool = map[string]bool{"disable_http_ac_validation": bDisableHTTPAC, "disable_grpc_ac_deps_check": bDisableDeps,
		"enable_ac_key_instance_mangling": bMangle, "enable_endpoint_metrics": bMetrics, "experimental_remote_asset_api": bAsset}
	vmodel.FlagDur = map[string]time.Duration{"idle_timeout": idle, "http_read_timeout": rt, "http_write_timeout": wt}
	cf, errF := get(&cli.Context{})

	// ---- as a YAML document holding the same keys
	vmodel.YamlFill = func(out interface{}) error {
		yc := out.(*YamlConfig)
		yc.Dir, yc.MaxSize, yc.MaxSizeHardLimit = dir, maxSize, hard
		yc.MaxBlobSize, yc.MaxProxyBlobSize = maxBlob, maxProxyBlob
		yc.NumUploaders, yc.MaxQueuedUploads = uploaders, queued
		yc.StorageMode, yc.ZstdImplementation = storage, impl
		yc.AccessLogLevel, yc.LogTimezone, yc.MinTLSVersion = logLevel, tz, "1.0"
		yc.DisableHTTPACValidation, yc.DisableGRPCACDepsCheck = bDisableHTTPAC, bDisableDeps
		yc.EnableACKeyInstanceMangling, yc.EnableEndpointMetrics, yc.ExperimentalRemoteAssetAPI = bMangle, bMetrics, bAsset
		yc.IdleTimeout, yc.HTTPReadTimeout, yc.HTTPWriteTimeout = idle, rt, wt
		if deprecated {
			yc.Host, yc.Port, yc.GRPCPort, yc.ProfileHost, yc.ProfilePort = host, port, grpcPort, profHost, profPort
		} else {
			yc.HTTPAddress, yc.GRPCAddress, yc.ProfileAddress = httpAddr, grpcAddr, profAddr
		}
		return nil
	}
	cy, errY := NewFromYaml([]byte("document"))

	vsym.Reach("both-front-ends-returned")
	vsym.Assert((errF == nil) == (errY == nil), "frontends/C19-accepted-by-one-front-end-refused-by-the-other")
	if errF != nil || errY != nil {
		vsym.Reach("front-ends-refused")
		return
	}
	vsym.Reach("front-ends-accepted")
	vsym.Assert(cf.HTTPAddress == cy.HTTPAddress, "frontends/C19-http-address-agrees")
	vsym.Assert(cf.GRPCAddress == cy.GRPCAddress, "frontends/C19-grpc-address-agrees")
	vsym.Assert(cf.ProfileAddress == cy.ProfileAddress, "frontends/C19-profile-address-agrees")
	vsym.Assert(cf.Dir == cy.Dir && cf.StorageMode == cy.StorageMode && cf.ZstdImplementation == cy.ZstdImplementation, "frontends/C19-storage-settings-agree")
	vsym.Assert(cf.MaxSize == cy.MaxSize, "frontends/C19-max-size-agrees")
	vsym.Assert(cf.MaxSizeHardLimit == cy.MaxSizeHardLimit, "frontends/C19-hard-limit-agrees")
	vsym.Assert(cf.MaxBlobSize == cy.MaxBlobSize && cf.MaxProxyBlobSize == cy.MaxProxyBlobSize, "frontends/C19-blob-limits-agree")
	vsym.Assert(cf.NumUploaders == cy.NumUploaders && cf.MaxQueuedUploads == cy.MaxQueuedUploads, "frontends/C19-uploader-settings-agree")
	vsym.Assert(cf.AccessLogLevel == cy.AccessLogLevel && cf.LogTimezone == cy.LogTimezone, "frontends/C19-log-settings-agree")
	vsym.Assert(cf.DisableHTTPACValidation == cy.DisableHTTPACValidation && cf.DisableGRPCACDepsCheck == cy.DisableGRPCACDepsCheck, "frontends/C19-validation-switches-agree")
	vsym.Assert(cf.EnableACKeyInstanceMangling == cy.EnableACKeyInstanceMangling && cf.EnableEndpointMetrics == cy.EnableEndpointMetrics && cf.ExperimentalRemoteAssetAPI == cy.ExperimentalRemoteAssetAPI, "frontends/C19-feature-switches-agree")
	vsym.Assert(cf.IdleTimeout == cy.IdleTimeout && cf.HTTPReadTimeout == cy.HTTPReadTimeout && cf.HTTPWriteTimeout == cy.HTTPWriteTimeout, "frontends/C19-timeouts-agree")
}
