package server

// H16: the HTTP cache handler against the contract cache stub: GET / HEAD /
// PUT on /cas/ and /ac/ (validated or raw). Serves C01, C02, C15, C17, C18.

import (
	"context"
	"crypto/tls"
	"crypto/x509"
	"io"
	"net/http"
	"net/url"

	"github.com/buchgr/bazel-remote/v2/cache"
	"github.com/buchgr/bazel-remote/v2/zzverif/vmodel"
	"github.com/buchgr/bazel-remote/v2/zzverif/vsym"

	pb "github.com/buchgr/bazel-remote/v2/genproto/build/bazel/remote/execution/v2"
)

// kindCache records which namespace each read went to.
type kindCache struct {
	vCache
	getKinds []cache.EntryKind
	zstdGets int
}

func (c *kindCache) Get(ctx context.Context, kind cache.EntryKind, hash string, size int64, offset int64) (io.ReadCloser, int64, error) {
	c.getKinds = append(c.getKinds, kind)
	return c.vCache.Get(ctx, kind, hash, size, offset)
}

func (c *kindCache) GetZstd(ctx context.Context, hash string, size int64, offset int64) (io.ReadCloser, int64, error) {
	c.zstdGets++
	c.getKinds = append(c.getKinds, cache.CAS) // a compressed read is a CAS read
	return c.vCache.GetZstd(ctx, hash, size, offset)
}

type vHTTPW struct {
	hdr    http.Header
	status int
	n      int64
	src    string
	srcOff int64
	contig bool
}

func (w *vHTTPW) Header() http.Header { return w.hdr }
func (w *vHTTPW) WriteHeader(code int) {
	if w.status == 0 {
		w.status = code
	}
}
func (w *vHTTPW) Write(b []byte) (int, error) {
	if w.status == 0 {
		w.status = 200
	}
	if len(b) > 0 {
		s, off, ok := vsym.Prov(b)
		if w.n == 0 && ok {
			w.src, w.srcOff, w.contig = s, off, true
		} else if !ok || s != w.src || off != w.srcOff+w.n {
			w.contig = false
		}
	}
	w.n += int64(len(b))
	return len(b), nil
}

func vHTTPServer(c *kindCache, validateAC bool) *httpCache {
	return &httpCache{cache: c, accessLogger: vLog{}, errorLogger: vLog{}, validateAC: validateAC, maxCasBlobSizeBytes: c.maxBlobSize}
}

func VerifHTTPGet() {
	c := &kindCache{}
	c.maxBlobSize = 1 << 40
	validate := vsym.Choose("validateAC", 2) == 1
	wantKind := cache.CAS
	path := "/cas/" + vHashA
	if vsym.Choose("namespace", 2) == 1 {
		path = "/ac/" + vHashA
		wantKind = cache.RAW
		if validate {
			vsym.Stop("validated AC reads go through GetValidatedActionResult (H12/H15)")
		}
	}
	size := vsym.Int64("blobSize")
	vsym.Assume(size >= 0)
	vsym.Assume(size < 1<<30)
	var st *vmodel.MStream
	switch vsym.Choose("cache", 3) {
	case 0:
	case 1:
		c.getErr = &cache.Error{Code: 500, Text: "boom"}
	case 2:
		st = &vmodel.MStream{Name: "blob", L: size, FailAt: -1}
		c.getRC, c.getSize = st, size
	}
	r := &http.Request{Method: "GET", URL: &url.URL{Path: path}, Header: http.Header{}, Body: http.NoBody, RemoteAddr: "1.2.3.4:5"}
	acceptZstd := vsym.Choose("acceptZstd", 2) == 1
	if acceptZstd {
		r.Header.Set("Accept-Encoding", "gzip, zstd")
	}
	h := vHTTPServer(c, validate)
	w := &vHTTPW{hdr: http.Header{}}
	h.CacheHandler(w, r)

	if w.status == 0 {
		w.status = 200 // net/http: a handler that returns without writing answers 200
	}
	vsym.Reach("http-get-returned")
	okOne := len(c.getKinds) == 1
	vsym.Assert(okOne, "http/exactly-one-cache-read")
	if okOne {
		vsym.Assert(c.getKinds[0] == wantKind, "http/C15-read-goes-to-the-namespace-of-the-url")
		vsym.Assert(c.zstdGets == 0 || wantKind == cache.CAS, "http/C15-compressed-read-only-from-the-CAS")
	}
	if w.status == 200 {
		vsym.Reach("http-get-ok")
		vsym.Assert(st != nil, "http/C02-hit-without-a-reader")
		if st != nil {
			vsym.Assert(w.n == size, "http/C02-body-is-the-whole-blob")
			if size > 0 {
				vsym.Assert(w.contig && w.src == "blob" && w.srcOff == 0, "http/C02-body-bytes-are-the-blob-bytes")
			}
			if c.zstdGets == 0 {
				cl := w.hdr.Get("Content-Length")
				vsym.Assert(cl == vsym.Decimal(size), "http/C02-content-length-is-the-blob-size")
			}
			vsym.Assert(st.Closed >= 1, "http/C14-reader-closed")
		}
	} else {
		vsym.Reach("http-get-not-ok")
		vsym.Assert(st == nil, "http/C02-available-blob-is-served")
	}
}

func VerifHTTPPut() {
	c := &kindCache{}
	c.maxBlobSize = vsym.Int64("maxBlobSize")
	vsym.Assume(c.maxBlobSize > 0)
	c.good = map[string]bool{}
	if vsym.Choose("putFails", 2) == 1 {
		c.putFail = &cache.Error{Code: 507, Text: "no space"}
	}
	kind := cache.CAS
	path := "/cas/" + vHashA
	if vsym.Choose("namespace", 2) == 1 {
		path = "/ac/" + vHashA
		kind = cache.RAW
	}
	bodyLen := vsym.Int64("bodyLen")
	vsym.Assume(bodyLen >= 0)
	vsym.Assume(bodyLen < 1<<30)
	body := &vmodel.MStream{Name: "client", L: bodyLen, FailAt: -1}
	r := &http.Request{Method: "PUT", URL: &url.URL{Path: path}, Header: http.Header{}, Body: body, RemoteAddr: "1.2.3.4:5"}
	r.ContentLength = vsym.Int64("contentLength")
	vsym.Assume(r.ContentLength >= -1)
	declared := r.ContentLength
	logicalSrc := "client"
	logicalLen := bodyLen
	supported := true
	switch vsym.Choose("contentEncoding", 4) {
	case 0:
	case 1:
		r.Header.Set("Content-Encoding", "identity")
	case 2:
		r.Header.Set("Content-Encoding", "zstd")
		// compressed uploads declare the logical size in a header
		r.Header.Set("X-Digest-SizeBytes", "4096")
		declared = 4096
		vmodel.ZstdUpload.CompressedSrc = "client"
		vmodel.ZstdUpload.CompressedLen = bodyLen
		vmodel.ZstdUpload.DecodedSrc = "client-decoded"
		vmodel.ZstdUpload.DecodedLen = vsym.Int64("decodedLen")
		vsym.Assume(vmodel.ZstdUpload.DecodedLen >= 0)
		vsym.Assume(vmodel.ZstdUpload.DecodedLen < 1<<30)
		vmodel.ZstdUpload.Corrupt = vsym.Bool("corrupt")
		logicalSrc, logicalLen = "client-decoded", vmodel.ZstdUpload.DecodedLen
	case 3:
		r.Header.Set("Content-Encoding", "br")
		supported = false
	}
	c.good[logicalSrc] = vsym.Bool("bytes-are-the-blob")
	h := vHTTPServer(c, false)
	w := &vHTTPW{hdr: http.Header{}}
	h.CacheHandler(w, r)

	vsym.Reach("http-put-returned")
	stored := false
	for _, p := range c.puts {
		if p.err == nil && p.hash == vHashA && p.kind == kind {
			stored = true
			vsym.Assert(p.size == declared, "http/C01-stored-under-the-declared-size")
		}
	}
	if w.status == 0 {
		w.status = 200
	}
	if w.status == 200 {
		vsym.Reach("http-put-ok")
		vsym.Assert(stored, "http/C01-acknowledged-although-nothing-was-stored")
		vsym.Assert(supported, "http/C01-unsupported-content-encoding-acknowledged")
		vsym.Assert(declared <= c.maxBlobSize, "http/C18-oversize-upload-acknowledged")
		vsym.Assert(logicalLen == declared, "http/C01-acknowledged-although-body-length-differs-from-declared-size")
		if kind == cache.CAS && declared > 0 {
			vsym.Assert(c.good[logicalSrc], "http/C01-acknowledged-although-bytes-are-not-the-blob")
		}
	} else {
		vsym.Reach("http-put-refused")
		vsym.Assert(!stored, "http/C01-refused-upload-was-stored")
		if c.putFail != nil && len(c.puts) > 0 {
			vsym.Assert(w.status == 507, "http/C17-insufficient-storage-is-507")
		}
		if declared > c.maxBlobSize {
			vsym.Assert(w.status >= 400 && w.status < 500, "http/C18-oversize-upload-is-a-client-error")
			vsym.Assert(len(c.puts) == 0, "http/C18-oversize-upload-not-attempted")
		}
	}
}

// HTTP PUT of an ActionResult with validation enabled: wire or JSON body,
// plain or zstd-wrapped, with the same defect classes as the gRPC upload.
func VerifHTTPPutAC() {
	c := &kindCache{}
	c.maxBlobSize = 1 << 40
	c.good = map[string]bool{}
	ar, valid, stdoutLen, fileLen := vUploadedResult(&c.vCache)
	worker := ""
	if ar != nil && vsym.Choose("worker-given", 2) == 1 {
		worker = "builder-7"
		ar.ExecutionMetadata = &pb.ExecutedActionMetadata{Worker: worker}
	}
	bodyLen := vsym.Int64("bodyLen")
	vsym.Assume(bodyLen >= 1)
	vsym.Assume(bodyLen <= 4096)
	body := &vmodel.MStream{Name: "client", L: bodyLen, FailAt: -1}
	r := &http.Request{Method: "PUT", URL: &url.URL{Path: "/ac/" + vHashA}, Header: http.Header{}, Body: body, RemoteAddr: "1.2.3.4:5"}
	msgSrc, msgLen := "client", bodyLen
	r.ContentLength = bodyLen
	if vsym.Choose("zstd", 2) == 1 {
		r.Header.Set("Content-Encoding", "zstd")
		r.Header.Set("X-Digest-SizeBytes", "700")
		vmodel.ZstdUpload.CompressedSrc = "client"
		vmodel.ZstdUpload.CompressedLen = bodyLen
		vmodel.ZstdUpload.DecodedSrc = "client-decoded"
		vmodel.ZstdUpload.DecodedLen = 700
		msgSrc, msgLen = "client-decoded", 700
	}
	bodyIsJSON := vsym.Choose("body-is-json", 2) == 1
	parses := ar != nil && vsym.Choose("body-parses", 2) == 1
	if parses {
		if bodyIsJSON {
			vmodel.RegisterJSON(msgSrc, ar, msgLen)
		} else {
			vmodel.RegisterProto(msgSrc, ar, msgLen)
		}
	}
	declaredJSON := vsym.Choose("content-type-json", 2) == 1
	if declaredJSON {
		r.Header.Set("Content-Type", "application/json")
	}
	h := vHTTPServer(c, true)
	w := &vHTTPW{hdr: http.Header{}}
	h.CacheHandler(w, r)

	if w.status == 0 {
		w.status = 200
	}
	vsym.Reach("http-put-ac-returned")
	acceptable := valid && parses && bodyIsJSON == declaredJSON
	if !acceptable {
		vsym.Reach("http-put-ac-unacceptable")
		vsym.Assert(w.status != 200, "http/C11-invalid-action-result-accepted")
		vsym.Assert(len(c.puts) == 0, "http/C11-rejected-upload-stored-something")
		if w.status != 200 {
			vsym.Assert(w.status >= 400 && w.status < 500, "http/C11-invalid-upload-is-a-client-error")
		}
		return
	}
	vsym.Assert(w.status == 200, "http/C11-valid-action-result-refused")
	if w.status != 200 {
		return
	}
	vsym.Reach("http-put-ac-accepted")
	vCheckStoredResult(&c.vCache, vHashA, ar, worker, stdoutLen, fileLen)
	// the stored form is the wire encoding, whatever the upload encoding was
	for _, m := range vmodel.Marshalled {
		vsym.Assert(!m.JSON, "http/C11-stored-form-is-the-wire-encoding")
	}
}

// ---- client certificates (mTLS) on the HTTP front end: GET/HEAD are gated
// by the "reads" flag, PUT by the "writes" flag, independently.
func VerifHTTPClientCert() {
	c := &kindCache{}
	c.maxBlobSize = 1 << 40
	c.good = map[string]bool{"client": true}
	c.exists = map[string]bool{vHashA: true}
	c.existsSize = map[string]int64{vHashA: 5}
	st := &vmodel.MStream{Name: "blob", L: 5, FailAt: -1}
	c.getRC, c.getSize = st, 5
	h := vHTTPServer(c, false)
	h.checkClientCertForReads = vsym.Choose("certForReads", 2) == 1
	h.checkClientCertForWrites = vsym.Choose("certForWrites", 2) == 1
	method := []string{"GET", "HEAD", "PUT"}[vsym.Choose("method", 3)]
	r := &http.Request{Method: method, URL: &url.URL{Path: "/cas/" + vHashA}, Header: http.Header{}, Body: http.NoBody, RemoteAddr: "1.2.3.4:5"}
	if method == "PUT" {
		r.Body = &vmodel.MStream{Name: "client", L: 5, FailAt: -1}
		r.ContentLength = 5
	}
	hasCert := false
	switch vsym.Choose("tls", 4) {
	case 0: // plain connection
	case 1:
		r.TLS = &tls.ConnectionState{}
	case 2:
		r.TLS = &tls.ConnectionState{VerifiedChains: [][]*x509.Certificate{{}}}
	case 3:
		r.TLS = &tls.ConnectionState{VerifiedChains: [][]*x509.Certificate{{&x509.Certificate{}}}}
		hasCert = true
	}
	w := &vHTTPW{hdr: http.Header{}}
	h.CacheHandler(w, r)
	if w.status == 0 {
		w.status = 200
	}
	vsym.Reach("http-cert-returned")
	required := h.checkClientCertForReads
	if method == "PUT" {
		required = h.checkClientCertForWrites
	}
	touched := len(c.getKinds) > 0 || len(c.puts) > 0 || c.contains > 0
	if required && !hasCert {
		vsym.Reach("http-cert-refused")
		vsym.Assert(w.status == 401, "http/C13-request-without-verified-client-certificate-is-401")
		vsym.Assert(!touched, "http/C13-refused-request-reached-the-cache")
	} else {
		vsym.Reach("http-cert-admitted")
		vsym.Assert(w.status == 200, "http/C13-admitted-request-refused")
	}
}

// ---- instance names on the HTTP front end: the action-cache key is mangled
// with the instance name exactly as the gRPC front end does it (same function,
// same text - also for names a URL would escape).
func VerifHTTPInstanceName() {
	c := &kindCache{}
	c.maxBlobSize = 1 << 40
	h := vHTTPServer(c, false)
	h.mangleACKeys = true
	inst := []string{"", "main", "a/b", "my instance", "blobs/ac", "100%"}[vsym.Choose("instance", 6)]
	p := "/ac/" + vHashA
	if inst != "" {
		p = "/" + inst + p
	}
	u := &url.URL{Path: p}
	r := &http.Request{Method: "GET", URL: u, Header: http.Header{}, Body: http.NoBody, RemoteAddr: "1.2.3.4:5"}
	rec := &keyRecorder{}
	h.cache = rec
	w := &vHTTPW{hdr: http.Header{}}
	h.CacheHandler(w, r)
	vsym.Reach("http-instance-returned")
	want := cache.TransformActionCacheKey(vHashA, inst, vLog{})
	ok := len(rec.hashes) == 1
	vsym.Assert(ok, "http/C15-one-lookup")
	if ok {
		vsym.Assert(rec.hashes[0] == want, "http/C15-http-key-is-the-grpc-key-for-the-same-instance")
		vsym.Assert(rec.kinds[0] == cache.RAW, "http/C15-action-cache-namespace")
	}
}

type keyRecorder struct {
	vCache
	hashes []string
	kinds  []cache.EntryKind
}

func (k *keyRecorder) Get(ctx context.Context, kind cache.EntryKind, hash string, size int64, offset int64) (io.ReadCloser, int64, error) {
	k.hashes = append(k.hashes, hash)
	k.kinds = append(k.kinds, kind)
	return nil, -1, nil
}
