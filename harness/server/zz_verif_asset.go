package server

// H13c: the remote asset API (FetchBlob) as an ingress into the CAS: a blob
// identified by a sha256 checksum is answered from the cache or fetched from
// an origin server (an arbitrary responder), and is acknowledged only if it is
// stored under a digest its bytes really have (C01); the size limit of the
// cache applies (C18); absence is NotFound (C06).

import (
	"context"
	"io"

	"google.golang.org/grpc/codes"

	asset "github.com/buchgr/bazel-remote/v2/genproto/build/bazel/remote/asset/v1"

	"github.com/buchgr/bazel-remote/v2/cache"
	"github.com/buchgr/bazel-remote/v2/zzverif/vmodel"
	"github.com/buchgr/bazel-remote/v2/zzverif/vsym"
)

// digestCache: the contract stub, told which digest the origin's bytes really
// have: like the disk cache it refuses a CAS upload under any other digest
// (after reading it).
type digestCache struct {
	vCache
	trueHash string
}

func (c *digestCache) Put(ctx context.Context, kind cache.EntryKind, hash string, size int64, r io.Reader) error {
	c.good["origin"] = kind != cache.CAS || hash == c.trueHash
	return c.vCache.Put(ctx, kind, hash, size, r)
}

const vSRIofHashA = "sha256-qqqqqqqqqqqqqqqqqqqqqqqqqqqqqqqqqqqqqqqqqqo="

func VerifFetchBlob() {
	c := &digestCache{}
	c.maxBlobSize = vsym.Int64("maxBlobSize")
	c.good, c.exists, c.existsSize = map[string]bool{}, map[string]bool{}, map[string]int64{}
	vsym.Assume(c.maxBlobSize > 0)
	s := &grpcServer{cache: c, accessLogger: vLog{}, errorLogger: vLog{}, depsCheck: true, maxCasBlobSizeBytes: c.maxBlobSize}
	req := &asset.FetchBlobRequest{Uris: []string{"http://origin.example/file.tar"}}
	withChecksum := vsym.Choose("checksum", 2) == 1
	if withChecksum {
		req.Qualifiers = []*asset.Qualifier{{Name: "checksum.sri", Value: vSRIofHashA}}
	}
	cached := withChecksum && vsym.Choose("cached", 2) == 1
	cachedSize := vsym.Int64("cachedSize")
	vsym.Assume(cachedSize >= 0)
	if cached {
		c.exists[vHashA] = true
		c.existsSize[vHashA] = cachedSize
	}
	// the origin server
	bodyLen := vsym.Int64("bodyLen")
	vsym.Assume(bodyLen >= 1)
	vsym.Assume(bodyLen < 1<<30)
	body := &vmodel.MStream{Name: "origin", L: bodyLen, FailAt: -1}
	bodyIsA := vsym.Bool("origin-serves-blob-A")
	switch vsym.Choose("origin", 3) {
	case 0:
		vmodel.ClientResp.Err = vErrClient
	case 1:
		vmodel.ClientResp.StatusCode = 404
		vmodel.ClientResp.Body = body
	case 2:
		vmodel.ClientResp.StatusCode = 200
		vmodel.ClientResp.Body = body
	}
	vmodel.ClientResp.ContentLength = bodyLen
	if vsym.Choose("contentLengthKnown", 2) == 0 {
		vmodel.ClientResp.ContentLength = -1
	}
	// what the origin's bytes hash to: blob A, or some other blob B
	if bodyIsA {
		vmodel.Blobs = []*vmodel.BlobSpec{{Stream: "origin", Hash: vHashA, N: bodyLen, D: bodyLen}}
	} else {
		vmodel.Blobs = []*vmodel.BlobSpec{{Stream: "origin", Hash: vHashB, N: bodyLen, D: bodyLen}}
	}
	trueHash := vHashB
	if bodyIsA {
		trueHash = vHashA
	}
	c.trueHash = trueHash

	resp, err := s.FetchBlob(context.Background(), req)

	vsym.Reach("fetchblob-returned")
	vsym.Assert(err == nil && resp != nil && resp.Status != nil, "asset/answers-with-a-status")
	if resp == nil || resp.Status == nil {
		return
	}
	ok := resp.Status.Code == int32(codes.OK)
	var put *vPutRec
	for _, p := range c.puts {
		if p.err == nil {
			put = p
		}
	}
	for _, p := range c.puts {
		if p.err == nil {
			vsym.Assert(p.kind == cache.CAS, "asset/C15-fetched-blob-stored-in-the-CAS")
			vsym.Assert(p.size == bodyLen && p.got == bodyLen, "asset/C01-stored-size-is-the-number-of-bytes-fetched")
		}
	}
	if ok {
		vsym.Reach("fetchblob-ok")
		okD := resp.BlobDigest != nil
		vsym.Assert(okD, "asset/C01-ok-without-a-digest")
		if !okD {
			return
		}
		if cached {
			vsym.Reach("fetchblob-from-cache")
			vsym.Assert(resp.BlobDigest.Hash == vHashA && resp.BlobDigest.SizeBytes == cachedSize, "asset/C02-cached-blob-reported-with-its-size")
			vsym.Assert(vmodel.ClientResp.Calls == 0, "asset/cached-blob-not-fetched-again")
			return
		}
		vsym.Reach("fetchblob-fetched")
		vsym.Assert(put != nil, "asset/C01-acknowledged-although-nothing-was-stored")
		vsym.Assert(resp.BlobDigest.Hash == trueHash && resp.BlobDigest.SizeBytes == bodyLen, "asset/C01-reported-digest-is-the-digest-of-the-fetched-bytes")
		if withChecksum {
			vsym.Assert(bodyIsA, "asset/C01-checksum-mismatch-acknowledged")
		}
		vsym.Assert(bodyLen <= c.maxBlobSize, "asset/C18-oversize-fetch-acknowledged")
		vsym.Assert(vmodel.ClientResp.StatusCode == 200 && vmodel.ClientResp.Err == nil, "asset/C12-failed-origin-request-acknowledged")
	} else {
		vsym.Reach("fetchblob-not-ok")
		vsym.Assert(!cached, "asset/C02-cached-blob-not-found")
		if withChecksum && !bodyIsA {
			// bytes that are not blob A never make digest A present
			vsym.Assert(put == nil || put.hash != vHashA, "asset/C01-wrong-bytes-stored-under-the-requested-digest")
		}
	}
	if body.Reads > 0 || vmodel.ClientResp.StatusCode != 0 {
		if vmodel.ClientResp.Err == nil && vmodel.ClientResp.Calls > 0 {
			vsym.Assert(body.Closed >= 1, "asset/C14-response-body-closed")
		}
	}
}
