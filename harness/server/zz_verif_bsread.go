package server

// H14b: ByteStream.Read against a contract stub of the cache: the bytes sent
// are exactly [read_offset, n) of what the cache delivers, in order, never
// more than a non-zero read_limit. Serves C02 (and C14: reader closed).

import (
	"context"
	"io"

	"google.golang.org/genproto/googleapis/bytestream"
	"google.golang.org/grpc"
	"google.golang.org/grpc/codes"
	"google.golang.org/grpc/status"

	"github.com/buchgr/bazel-remote/v2/cache"
	"github.com/buchgr/bazel-remote/v2/zzverif/vmodel"
	"github.com/buchgr/bazel-remote/v2/zzverif/vsym"
)

type vReadServer struct {
	grpc.ServerStream
	sent    int64
	src     string
	srcOff  int64
	contig  bool
	sends   int
	failAt  int // Send number that fails (0 = never)
	sendErr error
}

func (s *vReadServer) Context() context.Context { return context.Background() }
func (s *vReadServer) Send(r *bytestream.ReadResponse) error {
	s.sends++
	if s.failAt != 0 && s.sends == s.failAt {
		return s.sendErr
	}
	if len(r.Data) > 0 {
		src, off, ok := vsym.Prov(r.Data)
		if s.sent == 0 && ok {
			s.src, s.srcOff, s.contig = src, off, true
		} else if !ok || src != s.src || off != s.srcOff+s.sent {
			s.contig = false
		}
	}
	s.sent += int64(len(r.Data))
	return nil
}

// rangeCache hands out the blob from the offset it is asked for.
type rangeCache struct {
	vCache
	blobSize int64
	present  bool
	askKind  cache.EntryKind
	askSize  int64
	askOff   int64
	asked    int
	zstdAsk  int
	rd       *vmodel.MStream
	short    int
}

func (c *rangeCache) Get(ctx context.Context, kind cache.EntryKind, hash string, size int64, offset int64) (io.ReadCloser, int64, error) {
	c.asked++
	c.askKind, c.askSize, c.askOff = kind, size, offset
	if !c.present || hash != vHashA || size != c.blobSize {
		return nil, -1, nil
	}
	c.rd = &vmodel.MStream{Name: "blob", L: c.blobSize, Pos: offset, FailAt: -1, Short: c.short}
	return c.rd, c.blobSize, nil
}

func (c *rangeCache) GetZstd(ctx context.Context, hash string, size int64, offset int64) (io.ReadCloser, int64, error) {
	c.zstdAsk++
	return nil, -1, nil
}

func VerifBytestreamRead() {
	const n = 5000000 // appears in the resource name: concrete; more than two 2 MiB messages
	c := &rangeCache{blobSize: n}
	c.present = vsym.Choose("present", 2) == 1
	c.short = vsym.Choose("shortReads", 2)
	s := &grpcServer{cache: c, accessLogger: vLog{}, errorLogger: vLog{}, depsCheck: true, maxCasBlobSizeBytes: 1 << 40}
	off := vsym.Int64("readOffset")
	limit := vsym.Int64("readLimit")
	req := &bytestream.ReadRequest{ResourceName: "instance/blobs/" + vHashA + "/5000000", ReadOffset: off, ReadLimit: limit}
	out := &vReadServer{}
	if vsym.Choose("clientGone", 2) == 1 {
		out.failAt = 1 + vsym.Choose("failingSend", 3)
		out.sendErr = vErrClient
	}

	err := s.Read(req, out)

	vsym.Reach("bsread-returned")
	if c.rd != nil {
		vsym.Assert(c.rd.Closed >= 1, "bsread/C14-reader-closed")
	}
	// whatever happened: what was sent is a prefix of [offset, n), in order
	if out.sent > 0 {
		vsym.Assert(out.contig && out.src == "blob" && out.srcOff == off, "bsread/C02-bytes-are-the-blob-from-the-offset")
		vsym.Assert(off+out.sent <= n, "bsread/C02-no-more-than-the-rest-of-the-blob")
		if limit > 0 {
			vsym.Assert(out.sent <= limit, "bsread/C02-more-than-read-limit-delivered")
		}
	}
	if err == nil {
		vsym.Reach("bsread-ok")
		vsym.Assert(c.present, "bsread/C02-absent-blob-read-ok")
		vsym.Assert(vsym.And(off >= 0, off <= n), "bsread/C02-invalid-offset-read-ok")
		vsym.Assert(limit >= 0, "bsread/C02-negative-limit-read-ok")
		vsym.Assert(out.sent == n-off, "bsread/C02-complete-read-delivers-the-whole-rest")
		vsym.Assert(c.asked == 1 && c.askKind == cache.CAS && c.askSize == n && c.askOff == off, "bsread/C02-cache-asked-for-the-right-range")
		vsym.Assert(out.failAt == 0 || out.sends < out.failAt, "bsread/C02-ok-although-a-send-failed")
	} else {
		vsym.Reach("bsread-error")
		code := status.Code(err)
		if vsym.Or(off < 0, limit < 0) {
			vsym.Assert(out.sent == 0, "bsread/C02-invalid-request-sends-nothing")
		} else if off > n {
			vsym.Assert(code == codes.OutOfRange && out.sent == 0, "bsread/C02-offset-beyond-blob-is-out-of-range")
		} else if !c.present {
			vsym.Assert(code == codes.NotFound && out.sent == 0, "bsread/C06-absent-blob-is-not-found")
		} else if out.failAt == 0 {
			// the only remaining reason: the read limit is smaller than the rest
			vsym.Assert(vsym.And(limit > 0, limit < n-off), "bsread/C02-read-refused-without-reason")
			vsym.Assert(code == codes.OutOfRange, "bsread/C02-limit-exceeded-is-out-of-range")
		}
	}
}
