package server

// Shared by the handler harnesses: a contract stub of disk.Cache (what the
// disk layer guarantees is decided by the disk harnesses H3/H4/H5), stream
// and response-writer stubs.

import (
	"context"
	"errors"
	"io"

	"github.com/buchgr/bazel-remote/v2/cache"
	"github.com/buchgr/bazel-remote/v2/zzverif/vmodel"
	"github.com/buchgr/bazel-remote/v2/zzverif/vsym"

	pb "github.com/buchgr/bazel-remote/v2/genproto/build/bazel/remote/execution/v2"
)

const (
	vHashA = "aaaaaaaaaaaaaaaaaaaaaaaaaaaaaaaaaaaaaaaaaaaaaaaaaaaaaaaaaaaaaaaa"
	vHashB = "bbbbbbbbbbbbbbbbbbbbbbbbbbbbbbbbbbbbbbbbbbbbbbbbbbbbbbbbbbbbbbbb"
	vHashC = "cccccccccccccccccccccccccccccccccccccccccccccccccccccccccccccccc"
)

type vPutRec struct {
	kind    cache.EntryKind
	hash    string
	size    int64
	got     int64  // bytes consumed from the reader
	src     string // provenance of the bytes ("" = mixed/unknown)
	srcOff  int64
	contig  bool
	readErr error
	err     error
}

// vCache is the contract stub: Put consumes its reader completely and
// succeeds iff exactly `size` bytes arrive from one contiguous source range
// that the harness declares to be the blob (Good[src]), the size is within
// maxBlobSize and no injected failure applies.
type vCache struct {
	maxBlobSize int64
	good        map[string]bool // content sources that are the declared blob
	exists      map[string]bool // Contains verdict per hash
	existsSize  map[string]int64
	putFail     error // injected failure (e.g. 507) applied to every Put when non-nil
	puts        []*vPutRec
	gets        int
	contains    int
	stats       int
	getRC       io.ReadCloser
	getSize     int64
	getErr      error
	getByHash   map[string]*vGetAns // when non-nil: answers per hash (absent = not found)
	validated   *pb.ActionResult
	validatedRaw []byte
}

var vErrMismatch = &cache.Error{Code: 400, Text: "hash or size mismatch"}

func (c *vCache) Put(ctx context.Context, kind cache.EntryKind, hash string, size int64, r io.Reader) error {
	rec := &vPutRec{kind: kind, hash: hash, size: size, contig: true}
	c.puts = append(c.puts, rec)
	first := true
	for i := 0; i < 8; i++ {
		buf := vsym.MakeBytes(vmodel.CopyBuf)
		n, err := r.Read(buf)
		if n > 0 {
			s, off, ok := vsym.Prov(buf[:n])
			if !ok {
				rec.contig = false
			} else if first {
				rec.src, rec.srcOff = s, off
				first = false
			} else if s != rec.src || off != rec.srcOff+rec.got {
				rec.contig = false
			}
			rec.got += int64(n)
		}
		if err == io.EOF {
			break
		}
		if err != nil {
			rec.readErr = err
			break
		}
		if i == 7 {
			vsym.Stop("stub Put: reader did not end within the read bound")
		}
	}
	switch {
	case size < 0:
		rec.err = &cache.Error{Code: 400, Text: "negative size"}
	case size > c.maxBlobSize:
		rec.err = &cache.Error{Code: 400, Text: "too large"}
	case c.putFail != nil:
		rec.err = c.putFail
	case rec.readErr != nil:
		rec.err = &cache.Error{Code: 500, Text: "read error"}
	case rec.got != size:
		rec.err = vErrMismatch
	case kind == cache.CAS && size > 0 && !(rec.contig && rec.srcOff == 0 && c.good[rec.src]):
		rec.err = vErrMismatch
	}
	return rec.err
}

// stored reports whether some Put of (kind, hash) succeeded.
func (c *vCache) stored(kind cache.EntryKind, hash string) bool {
	for _, p := range c.puts {
		if p.kind == kind && p.hash == hash && p.err == nil {
			return true
		}
	}
	return false
}

type vGetAns struct {
	rc   io.ReadCloser
	size int64
	err  error
}

func (c *vCache) Get(ctx context.Context, kind cache.EntryKind, hash string, size int64, offset int64) (io.ReadCloser, int64, error) {
	c.gets++
	if c.getByHash != nil {
		a := c.getByHash[hash]
		if a == nil {
			return nil, -1, nil
		}
		return a.rc, a.size, a.err
	}
	return c.getRC, c.getSize, c.getErr
}

func (c *vCache) GetZstd(ctx context.Context, hash string, size int64, offset int64) (io.ReadCloser, int64, error) {
	c.gets++
	return c.getRC, c.getSize, c.getErr
}

func (c *vCache) GetValidatedActionResult(ctx context.Context, hash string) (*pb.ActionResult, []byte, error) {
	c.gets++
	return c.validated, c.validatedRaw, c.getErr
}

func (c *vCache) Contains(ctx context.Context, kind cache.EntryKind, hash string, size int64) (bool, int64) {
	c.contains++
	if c.exists[hash] {
		// present: with any size asked for (-1), or with exactly the size asked for
		if size < 0 || c.existsSize[hash] == size {
			return true, c.existsSize[hash]
		}
	}
	return false, -1
}

func (c *vCache) FindMissingCasBlobs(ctx context.Context, blobs []*pb.Digest) ([]*pb.Digest, error) {
	return blobs, nil
}

func (c *vCache) MaxSize() int64 { return 1 << 40 }
func (c *vCache) Stats() (int64, int64, int, int64) {
	c.stats++
	return 0, 0, 0, 0
}
func (c *vCache) RegisterMetrics() {}

type vLog struct{}

func (vLog) Printf(format string, v ...interface{}) {}

func vNewServer(c *vCache) *grpcServer {
	return &grpcServer{cache: c, accessLogger: vLog{}, errorLogger: vLog{}, depsCheck: true, maxCasBlobSizeBytes: c.maxBlobSize}
}

var vErrClient = errors.New("client aborted")
