package server

// H17 (gRPC part): the authentication interceptors, for every method name and
// every credential state (C13).

import (
	"context"
	"crypto/tls"
	"crypto/x509"
	"net"

	"google.golang.org/grpc"
	"google.golang.org/grpc/credentials"
	"google.golang.org/grpc/metadata"
	"google.golang.org/grpc/peer"

	"github.com/buchgr/bazel-remote/v2/zzverif/vmodel"
	"github.com/buchgr/bazel-remote/v2/zzverif/vsym"
)

// The methods that may be served without credentials when
// allow_unauthenticated_reads is set (README: "read-only" REAPI calls), and
// the one method that is always open. Every other method name - in particular
// UpdateActionResult, BatchUpdateBlobs, SpliceBlob, ByteStream/Write,
// FetchBlob, FetchDirectory, and any name not listed - needs credentials.
var vReadOnlySpec = []string{
	"/build.bazel.remote.execution.v2.ActionCache/GetActionResult",
	"/build.bazel.remote.execution.v2.ContentAddressableStorage/FindMissingBlobs",
	"/build.bazel.remote.execution.v2.ContentAddressableStorage/BatchReadBlobs",
	"/build.bazel.remote.execution.v2.ContentAddressableStorage/GetTree",
	"/build.bazel.remote.execution.v2.Capabilities/GetCapabilities",
	"/google.bytestream.ByteStream/Read",
}

const vHealthSpec = "/grpc.health.v1.Health/Check"

func vIsReadOnly(m string) bool {
	r := m == vReadOnlySpec[0]
	for _, x := range vReadOnlySpec[1:] {
		r = vsym.Or(r, m == x)
	}
	return r
}

type vStream struct {
	grpc.ServerStream
	ctx context.Context
}

func (s *vStream) Context() context.Context { return s.ctx }

type vAddr struct{}

func (vAddr) Network() string { return "tcp" }
func (vAddr) String() string  { return "1.2.3.4:5" }

var _ net.Addr = vAddr{}

// vBasicCreds builds a context with an arbitrary credential state and returns
// whether it carries valid credentials.
func vBasicCreds() (context.Context, *GrpcBasicAuth, func() bool) {
	userKnown := vsym.Bool("user-known")
	vmodel.PasswordMatches = vsym.Bool("password-matches")
	secrets := func(user, realm string) string {
		if userKnown {
			return "stored-secret"
		}
		return ""
	}
	ctx := context.Background()
	var user, pass string
	haveCreds := false
	switch vsym.Choose("metadata", 5) {
	case 0: // no metadata at all
		vsym.Fact("creds", "no metadata")
	case 1: // metadata without credentials
		ctx = metadata.NewIncomingContext(ctx, metadata.MD{"other": []string{"x"}})
		vsym.Fact("creds", "no auth keys")
	case 2: // :authority = user:pass@host with arbitrary user / password
		user, pass = vsym.Str("user"), vsym.Str("pass")
		vsym.Assume(vsym.Not(vsym.Contains(user, ":")))
		vsym.Assume(vsym.Not(vsym.Contains(pass, "@")))
		ctx = metadata.NewIncomingContext(ctx, metadata.MD{":authority": []string{user + ":" + pass + "@host"}})
		haveCreds = true
		vsym.Fact("creds", ":authority")
	case 3: // authorization: Basic base64("user:pass")
		user, pass = "user", "pass"
		ctx = metadata.NewIncomingContext(ctx, metadata.MD{"authorization": []string{"Basic dXNlcjpwYXNz"}})
		haveCreds = true
		vsym.Fact("creds", "basic header")
	case 4: // malformed authorization header
		ctx = metadata.NewIncomingContext(ctx, metadata.MD{"authorization": []string{"Basic !!!"}})
		vsym.Fact("creds", "malformed header")
	}
	b := NewGrpcBasicAuth(secrets, vsym.Choose("allowUnauthenticatedReads", 2) == 1)
	valid := func() bool {
		if !haveCreds {
			return false
		}
		// valid: non-empty user and password, known user, matching password
		// (the last is whatever the model of CheckSecret answered, read back
		// from the handler below through the same symbol)
		return vsym.And(vsym.And(user != "", pass != ""), vsym.And(userKnown, vmodel.PasswordMatches))
	}
	return ctx, b, valid
}

func VerifGrpcBasicAuth() {
	method := vsym.Str("FullMethod")
	ctx, b, valid := vBasicCreds()
	invoked := false
	var err error
	if vsym.Choose("kind", 2) == 0 {
		vsym.Fact("interceptor", "unary")
		_, err = b.UnaryServerInterceptor(ctx, nil, &grpc.UnaryServerInfo{FullMethod: method},
			func(ctx context.Context, req interface{}) (interface{}, error) { invoked = true; return nil, nil })
	} else {
		vsym.Fact("interceptor", "stream")
		err = b.StreamServerInterceptor(nil, &vStream{ctx: ctx}, &grpc.StreamServerInfo{FullMethod: method},
			func(srv interface{}, ss grpc.ServerStream) error { invoked = true; return nil })
	}
	open := vsym.Or(method == vHealthSpec, vsym.And(b.allowUnauthenticatedReadOnly, vIsReadOnly(method)))
	if invoked {
		vsym.Reach("basic-auth-handler-invoked")
		vsym.Assert(err == nil, "auth/handler-result-returned")
		// without valid credentials only the open methods get through
		vsym.Assert(vsym.Or(open, valid()), "auth/C13-no-method-served-without-valid-credentials-unless-open")
	} else {
		vsym.Reach("basic-auth-refused")
		vsym.Assert(err != nil, "auth/C13-refusal-is-an-error")
		vsym.Assert(vsym.Not(open), "auth/C13-open-method-refused")
		vsym.Assert(vsym.Not(valid()), "auth/C13-valid-credentials-refused")
	}
}

// valid credentials are accepted (separate harness: the password check is
// assumed to succeed)
func VerifGrpcBasicAuthAccepts() {
	method := vsym.Str("FullMethod")
	user, pass := vsym.Str("user"), vsym.Str("pass")
	vsym.Assume(user != "")
	vsym.Assume(pass != "")
	vsym.Assume(vsym.Not(vsym.Contains(user, ":")))
	vsym.Assume(vsym.Not(vsym.Contains(pass, "@")))
	ctx := metadata.NewIncomingContext(context.Background(), metadata.MD{":authority": []string{user + ":" + pass + "@host"}})
	b := NewGrpcBasicAuth(func(u, realm string) string { return "stored-secret" }, vsym.Choose("allowUnauthenticatedReads", 2) == 1)
	vmodel.PasswordMatches = true
	invoked := false
	_, err := b.UnaryServerInterceptor(ctx, nil, &grpc.UnaryServerInfo{FullMethod: method},
		func(ctx context.Context, req interface{}) (interface{}, error) { invoked = true; return nil, nil })
	vsym.Reach("valid-credentials")
	vsym.Assert(invoked && err == nil, "auth/C13-valid-credentials-accepted")
}

func vPeerCtx() (context.Context, bool) {
	ctx := context.Background()
	switch vsym.Choose("peer", 5) {
	case 0:
		vsym.Fact("peer", "none")
		return ctx, false
	case 1:
		vsym.Fact("peer", "not TLS")
		return peer.NewContext(ctx, &peer.Peer{Addr: vAddr{}}), false
	case 2:
		vsym.Fact("peer", "TLS, no verified chain")
		return peer.NewContext(ctx, &peer.Peer{Addr: vAddr{}, AuthInfo: credentials.TLSInfo{}}), false
	case 3:
		vsym.Fact("peer", "TLS, empty chain")
		st := tls.ConnectionState{VerifiedChains: [][]*x509.Certificate{{}}}
		return peer.NewContext(ctx, &peer.Peer{Addr: vAddr{}, AuthInfo: credentials.TLSInfo{State: st}}), false
	}
	vsym.Fact("peer", "verified chain")
	st := tls.ConnectionState{VerifiedChains: [][]*x509.Certificate{{&x509.Certificate{}}}}
	return peer.NewContext(ctx, &peer.Peer{Addr: vAddr{}, AuthInfo: credentials.TLSInfo{State: st}}), true
}

func VerifGrpcMTLS() {
	method := vsym.Str("FullMethod")
	ctx, verified := vPeerCtx()
	allowRO := vsym.Choose("allowUnauthenticatedReads", 2) == 1
	invoked := false
	var err error
	health := method == vHealthSpec
	if vsym.Choose("kind", 2) == 0 {
		_, err = GRPCmTLSUnaryServerInterceptor(allowRO)(ctx, nil, &grpc.UnaryServerInfo{FullMethod: method},
			func(ctx context.Context, req interface{}) (interface{}, error) { invoked = true; return nil, nil })
	} else {
		// Health/Check is a unary method: a stream with that name does not
		// exist, so the stream interceptor need not (and does not) exempt it
		health = false
		err = GRPCmTLSStreamServerInterceptor(allowRO)(nil, &vStream{ctx: ctx}, &grpc.StreamServerInfo{FullMethod: method},
			func(srv interface{}, ss grpc.ServerStream) error { invoked = true; return nil })
	}
	open := vsym.Or(health, vsym.And(allowRO, vIsReadOnly(method)))
	if invoked {
		vsym.Reach("mtls-handler-invoked")
		vsym.Assert(vsym.Or(open, verified), "auth/C13-no-method-served-without-verified-client-certificate-unless-open")
	} else {
		vsym.Reach("mtls-refused")
		vsym.Assert(err != nil, "auth/C13-refusal-is-an-error")
		vsym.Assert(vsym.Not(vsym.Or(open, verified)), "auth/C13-authorised-request-refused")
	}
}
