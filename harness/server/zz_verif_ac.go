package server

// H15: GetActionResult inlining (budget, de-inlining through the CAS) and
// UpdateActionResult (validate before storing, store exactly what was sent).
// Serves C11, C01 (inlined blobs), C06 (miss mapping).

import (
	"context"

	"google.golang.org/grpc/codes"
	"google.golang.org/grpc/status"

	"github.com/buchgr/bazel-remote/v2/cache"
	"github.com/buchgr/bazel-remote/v2/zzverif/vmodel"
	"github.com/buchgr/bazel-remote/v2/zzverif/vsym"

	pb "github.com/buchgr/bazel-remote/v2/genproto/build/bazel/remote/execution/v2"
)

const vMaxInline = 3 * 1024 * 1024 // the documented inlining budget

type vField struct {
	inlineLen int64 // > 0: stored inline with this many bytes
	digest    *pb.Digest
	name      string
}

func vBytesOf(name string, n int64) []byte {
	b := vsym.MakeBytes(int(n))
	vsym.Fill(b, int(n), name, 0)
	return b
}

// vStoredField: a field stored either inline (arbitrary length, no digest) or
// by digest (arbitrary size, blob available from the cache).
func vStoredField(c *vCache, name, hash string) *vField {
	f := &vField{name: name}
	if vsym.Choose(name+"-stored-inline", 2) == 1 {
		f.inlineLen = vsym.Int64(name + "-inline-len")
		vsym.Assume(f.inlineLen >= 1)
		vsym.Assume(f.inlineLen <= 4<<20)
		// its true digest, should the server de-inline it
		vmodel.Blobs = append(vmodel.Blobs, &vmodel.BlobSpec{Stream: name, Hash: hash, N: f.inlineLen, D: f.inlineLen})
		c.good[name] = true
	} else {
		sz := vsym.Int64(name + "-digest-size")
		vsym.Assume(sz >= 1)
		vsym.Assume(sz <= 4<<20)
		f.digest = &pb.Digest{Hash: hash, SizeBytes: sz}
		c.getByHash[hash] = &vGetAns{rc: &vmodel.MStream{Name: name + "-blob", L: sz, FailAt: -1}, size: sz}
	}
	return f
}

func VerifGetActionResultInline() {
	c := &vCache{maxBlobSize: 1 << 40, good: map[string]bool{}, exists: map[string]bool{}, existsSize: map[string]int64{}, getByHash: map[string]*vGetAns{}}
	s := vNewServer(c)
	so := vStoredField(c, "stdout", vHashB)
	of := vStoredField(c, "file", vHashC)
	ar := &pb.ActionResult{}
	if so.inlineLen > 0 {
		ar.StdoutRaw = vBytesOf("stdout", so.inlineLen)
	} else {
		ar.StdoutDigest = so.digest
	}
	file := &pb.OutputFile{Path: "out/f"}
	if of.inlineLen > 0 {
		file.Contents = vBytesOf("file", of.inlineLen)
		file.Digest = &pb.Digest{Hash: vHashC, SizeBytes: of.inlineLen}
	} else {
		file.Digest = of.digest
	}
	ar.OutputFiles = []*pb.OutputFile{file}
	c.validated = ar
	c.validatedRaw = []byte{1}
	req := &pb.GetActionResultRequest{ActionDigest: &pb.Digest{Hash: vHashA, SizeBytes: 9}}
	req.InlineStdout = vsym.Choose("inline-stdout", 2) == 1
	if vsym.Choose("inline-file", 2) == 1 {
		req.InlineOutputFiles = []string{"out/f"}
	}

	res, err := s.GetActionResult(context.Background(), req)

	vsym.Assert(err == nil && res != nil, "ac/C11-hit-is-returned")
	if res == nil {
		return
	}
	vsym.Reach("get-action-result-ok")
	okShape := len(res.OutputFiles) == 1 && res.OutputFiles[0] != nil
	vsym.Assert(okShape, "ac/C11-output-files-unchanged-in-number")
	if !okShape {
		return
	}
	total := int64(len(res.StdoutRaw)) + int64(len(res.OutputFiles[0].Contents))
	// every de-inlining Put succeeds in this harness, so the budget must hold
	vsym.Assert(total <= vMaxInline, "ac/C11-inlined-bytes-within-the-budget")
	// stdout: either the stored bytes, or the blob's bytes, or de-inlined with its digest
	if len(res.StdoutRaw) > 0 {
		vsym.Reach("stdout-inlined")
		src, off, ok := vsym.Prov(res.StdoutRaw)
		if so.inlineLen > 0 {
			vsym.Assert(ok && src == "stdout" && off == 0 && int64(len(res.StdoutRaw)) == so.inlineLen, "ac/C11-inline-stdout-unchanged")
		} else {
			vsym.Assert(req.InlineStdout, "ac/C11-stdout-inlined-without-being-requested")
			vsym.Assert(ok && src == "stdout-blob" && off == 0 && int64(len(res.StdoutRaw)) == so.digest.SizeBytes, "ac/C02-inlined-stdout-is-the-blob")
		}
	} else {
		vsym.Reach("stdout-by-digest")
		vsym.Assert(res.StdoutDigest != nil, "ac/C11-stdout-neither-inline-nor-digest")
		if so.inlineLen > 0 && res.StdoutDigest != nil {
			// de-inlined: stored in the CAS first, under its true digest
			vsym.Reach("stdout-deinlined")
			vsym.Assert(res.StdoutDigest.Hash == vHashB && res.StdoutDigest.SizeBytes == so.inlineLen, "ac/C11-deinlined-digest-is-the-true-digest")
			vsym.Assert(c.stored(cache.CAS, vHashB), "ac/C11-deinlined-bytes-were-stored-in-the-CAS")
		}
	}
	f0 := res.OutputFiles[0]
	if len(f0.Contents) > 0 {
		vsym.Reach("file-inlined")
		if of.inlineLen == 0 {
			vsym.Assert(len(req.InlineOutputFiles) == 1, "ac/C11-file-inlined-without-being-requested")
			vsym.Assert(int64(len(f0.Contents)) == of.digest.SizeBytes, "ac/C02-inlined-file-is-the-blob")
		}
	} else {
		vsym.Assert(f0.Digest != nil, "ac/C11-file-neither-inline-nor-digest")
		if of.inlineLen > 0 {
			vsym.Reach("file-deinlined")
			vsym.Assert(c.stored(cache.CAS, vHashC), "ac/C11-deinlined-bytes-were-stored-in-the-CAS")
		}
	}
}

// a miss of the validated lookup is NotFound, never a partial result (C06)
func VerifGetActionResultMiss() {
	c := &vCache{maxBlobSize: 1 << 40}
	s := vNewServer(c)
	res, err := s.GetActionResult(context.Background(), &pb.GetActionResultRequest{ActionDigest: &pb.Digest{Hash: vHashA, SizeBytes: 9}})
	vsym.Reach("get-action-result-miss")
	vsym.Assert(res == nil && status.Code(err) == codes.NotFound, "ac/C06-miss-is-not-found")
	r2, e2 := s.GetActionResult(context.Background(), nil)
	vsym.Assert(r2 == nil && e2 != nil, "ac/C14-nil-request-rejected")
	r3, e3 := s.GetActionResult(context.Background(), &pb.GetActionResultRequest{})
	vsym.Assert(r3 == nil && e3 != nil, "ac/C14-nil-digest-rejected")
}
