package server

// H15: GetActionResult inlining (budget, de-inlining through the CAS) and
// UpdateActionResult (validate before storing, store exactly what was sent).
// Serves C11, C01 (inlined blobs), C06 (miss mapping).

import (
	"context"

	"google.golang.org/grpc/codes"
	"google.golang.org/protobuf/types/known/timestamppb"
	"google.golang.org/grpc/status"

	"github.com/buchgr/bazel-remote/v2/cache"
	"github.com/buchgr/bazel-remote/v2/utils/validate"
	"github.com/buchgr/bazel-remote/v2/zzverif/vmodel"
	"github.com/buchgr/bazel-remote/v2/zzverif/vsym"

	pb "github.com/buchgr/bazel-remote/v2/genproto/build/bazel/remote/execution/v2"
)

const vMaxInline = 3 * 1024 * 1024 // the documented inlining budget

type vField struct {
	inlineLen int64 // > 0: stored inline with this many bytes
	digest    *pb.Digest
	name      string
}

func vBytesOf(name string, n int64) []byte {
	b := vsym.MakeBytes(int(n))
	vsym.Fill(b, int(n), name, 0)
	return b
}

// vStoredField: a field stored either inline (arbitrary length, no digest) or
// by digest (arbitrary size, blob available from the cache).
func vStoredField(c *vCache, name, hash string) *vField {
	f := &vField{name: name}
	if vsym.Choose(name+"-stored-inline", 2) == 1 {
		f.inlineLen = vsym.Int64(name + "-inline-len")
		vsym.Assume(f.inlineLen >= 1)
		vsym.Assume(f.inlineLen <= 4<<20)
		// its true digest, should the server de-inline it
		vmodel.Blobs = append(vmodel.Blobs, &vmodel.BlobSpec{Stream: name, Hash: hash, N: f.inlineLen, D: f.inlineLen})
		c.good[name] = true
	} else {
		sz := vsym.Int64(name + "-digest-size")
		vsym.Assume(sz >= 1)
		vsym.Assume(sz <= 4<<20)
		f.digest = &pb.Digest{Hash: hash, SizeBytes: sz}
		c.getByHash[hash] = &vGetAns{rc: &vmodel.MStream{Name: name + "-blob", L: sz, FailAt: -1}, size: sz}
	}
	return f
}

func VerifGetActionResultInline() {
	c := &vCache{maxBlobSize: 1 << 40, good: map[string]bool{}, exists: map[string]bool{}, existsSize: map[string]int64{}, getByHash: map[string]*vGetAns{}}
	s := vNewServer(c)
	so := vStoredField(c, "stdout", vHashB)
	of := vStoredField(c, "file", vHashC)
	ar := &pb.ActionResult{}
	if so.inlineLen > 0 {
		ar.StdoutRaw = vBytesOf("stdout", so.inlineLen)
	} else {
		ar.StdoutDigest = so.digest
	}
	file := &pb.OutputFile{Path: "out/f"}
	if of.inlineLen > 0 {
		file.Contents = vBytesOf("file", of.inlineLen)
		file.Digest = &pb.Digest{Hash: vHashC, SizeBytes: of.inlineLen}
	} else {
		file.Digest = of.digest
	}
	ar.OutputFiles = []*pb.OutputFile{file}
	c.validated = ar
	c.validatedRaw = []byte{1}
	req := &pb.GetActionResultRequest{ActionDigest: &pb.Digest{Hash: vHashA, SizeBytes: 9}}
	req.InlineStdout = vsym.Choose("inline-stdout", 2) == 1
	if vsym.Choose("inline-file", 2) == 1 {
		req.InlineOutputFiles = []string{"out/f"}
	}

	res, err := s.GetActionResult(context.Background(), req)

	vsym.Assert(err == nil && res != nil, "ac/C11-hit-is-returned")
	if res == nil {
		return
	}
	vsym.Reach("get-action-result-ok")
	okShape := len(res.OutputFiles) == 1 && res.OutputFiles[0] != nil
	vsym.Assert(okShape, "ac/C11-output-files-unchanged-in-number")
	if !okShape {
		return
	}
	total := int64(len(res.StdoutRaw)) + int64(len(res.OutputFiles[0].Contents))
	// every de-inlining Put succeeds in this harness, so the budget must hold
	vsym.Assert(total <= vMaxInline, "ac/C11-inlined-bytes-within-the-budget")
	// stdout: either the stored bytes, or the blob's bytes, or de-inlined with its digest
	if len(res.StdoutRaw) > 0 {
		vsym.Reach("stdout-inlined")
		src, off, ok := vsym.Prov(res.StdoutRaw)
		if so.inlineLen > 0 {
			vsym.Assert(ok && src == "stdout" && off == 0 && int64(len(res.StdoutRaw)) == so.inlineLen, "ac/C11-inline-stdout-unchanged")
		} else {
			vsym.Assert(req.InlineStdout, "ac/C11-stdout-inlined-without-being-requested")
			vsym.Assert(ok && src == "stdout-blob" && off == 0 && int64(len(res.StdoutRaw)) == so.digest.SizeBytes, "ac/C02-inlined-stdout-is-the-blob")
		}
	} else {
		vsym.Reach("stdout-by-digest")
		vsym.Assert(res.StdoutDigest != nil, "ac/C11-stdout-neither-inline-nor-digest")
		if so.inlineLen > 0 && res.StdoutDigest != nil {
			// de-inlined: stored in the CAS first, under its true digest
			vsym.Reach("stdout-deinlined")
			vsym.Assert(res.StdoutDigest.Hash == vHashB && res.StdoutDigest.SizeBytes == so.inlineLen, "ac/C11-deinlined-digest-is-the-true-digest")
			vsym.Assert(c.stored(cache.CAS, vHashB), "ac/C11-deinlined-bytes-were-stored-in-the-CAS")
		}
	}
	f0 := res.OutputFiles[0]
	if len(f0.Contents) > 0 {
		vsym.Reach("file-inlined")
		if of.inlineLen == 0 {
			vsym.Assert(len(req.InlineOutputFiles) == 1, "ac/C11-file-inlined-without-being-requested")
			vsym.Assert(int64(len(f0.Contents)) == of.digest.SizeBytes, "ac/C02-inlined-file-is-the-blob")
		}
	} else {
		vsym.Assert(f0.Digest != nil, "ac/C11-file-neither-inline-nor-digest")
		if of.inlineLen > 0 {
			vsym.Reach("file-deinlined")
			vsym.Assert(c.stored(cache.CAS, vHashC), "ac/C11-deinlined-bytes-were-stored-in-the-CAS")
		}
	}
}

// a miss of the validated lookup is NotFound, never a partial result (C06)
func VerifGetActionResultMiss() {
	c := &vCache{maxBlobSize: 1 << 40}
	s := vNewServer(c)
	res, err := s.GetActionResult(context.Background(), &pb.GetActionResultRequest{ActionDigest: &pb.Digest{Hash: vHashA, SizeBytes: 9}})
	vsym.Reach("get-action-result-miss")
	vsym.Assert(res == nil && status.Code(err) == codes.NotFound, "ac/C06-miss-is-not-found")
	r2, e2 := s.GetActionResult(context.Background(), nil)
	vsym.Assert(r2 == nil && e2 != nil, "ac/C14-nil-request-rejected")
	r3, e3 := s.GetActionResult(context.Background(), &pb.GetActionResultRequest{})
	vsym.Assert(r3 == nil && e3 != nil, "ac/C14-nil-digest-rejected")
}

// vUploadedResult builds the ActionResult of an upload: one defect class
// (or none) chosen by the solver, inline fields of symbolic length.
func vUploadedResult(c *vCache) (ar *pb.ActionResult, valid bool, stdoutLen int64, fileLen int64) {
	ar = &pb.ActionResult{ExitCode: 7}
	valid = true
	file := &pb.OutputFile{Path: "out/f", Digest: &pb.Digest{Hash: vHashC, SizeBytes: 5}}
	ar.OutputFiles = []*pb.OutputFile{file}
	ar.OutputDirectories = []*pb.OutputDirectory{{Path: "out/d", TreeDigest: &pb.Digest{Hash: vHashB, SizeBytes: 3}}}
	ar.OutputSymlinks = []*pb.OutputSymlink{{Path: "out/l", Target: "f"}}
	switch vsym.Choose("defect", 14) {
	case 0:
	case 1:
		return nil, false, 0, 0
	case 2:
		ar.OutputFiles = []*pb.OutputFile{file, nil}
		valid = false
	case 3:
		file.Path = ""
		valid = false
	case 4:
		file.Path = "/abs/f"
		valid = false
	case 5:
		file.Digest = nil
		valid = false
	case 6:
		file.Digest.SizeBytes = vsym.Int64("neg")
		vsym.Assume(file.Digest.SizeBytes < 0)
		valid = false
	case 7:
		file.Digest.Hash = vHashC[:63] + "G"
		valid = false
	case 8:
		ar.StdoutDigest = &pb.Digest{Hash: vHashB[:62], SizeBytes: 1}
		valid = false
	case 9:
		ar.StderrDigest = &pb.Digest{Hash: vHashB, SizeBytes: -1}
		valid = false
	case 10:
		ar.OutputDirectories = append(ar.OutputDirectories, nil)
		valid = false
	case 11:
		ar.OutputDirectories[0].TreeDigest = nil
		valid = false
	case 12:
		ar.OutputSymlinks[0].Target = ""
		valid = false
	case 13:
		ar.OutputDirectories[0].Path = "/abs/d"
		valid = false
	}
	if !valid {
		return ar, false, 0, 0
	}
	if vsym.Choose("stdout-inline", 2) == 1 {
		stdoutLen = vsym.Int64("stdout-len")
		vsym.Assume(stdoutLen >= 1)
		vsym.Assume(stdoutLen <= 4<<20)
		ar.StdoutRaw = vBytesOf("stdout", stdoutLen)
		vmodel.Blobs = append(vmodel.Blobs, &vmodel.BlobSpec{Stream: "stdout", Hash: vHashB, N: stdoutLen, D: stdoutLen})
		c.good["stdout"] = true
		if vsym.Choose("stdout-digest-given", 2) == 1 {
			ar.StdoutDigest = &pb.Digest{Hash: vHashB, SizeBytes: stdoutLen}
		}
	}
	if vsym.Choose("file-inline", 2) == 1 {
		fileLen = vsym.Int64("file-len")
		vsym.Assume(fileLen >= 1)
		vsym.Assume(fileLen <= 4<<20)
		file.Contents = vBytesOf("file", fileLen)
		file.Digest.SizeBytes = fileLen
		c.good["file"] = true
	}
	return ar, true, stdoutLen, fileLen
}

func vCountPuts(c *vCache, kind cache.EntryKind, hash string) (n int, last *vPutRec) {
	for _, p := range c.puts {
		if p.kind == kind && p.hash == hash {
			n++
			last = p
		}
	}
	return
}

// vCheckStoredResult: what was put under the action key is the serialisation
// of the uploaded message with at most the worker name filled in.
func vCheckStoredResult(c *vCache, key string, up *pb.ActionResult, hadWorker string, stdoutLen, fileLen int64) {
	n, p := vCountPuts(c, cache.AC, key)
	vsym.Assert(n == 1 && p != nil && p.err == nil, "ac/C11-accepted-upload-stored-once-under-its-key")
	if n != 1 || p == nil {
		return
	}
	var rec *vmodel.MarshalRec
	for _, m := range vmodel.Marshalled {
		if m.Src == p.src {
			rec = m
		}
	}
	okBytes := rec != nil && p.contig && p.srcOff == 0 && p.got == rec.Len && p.size == rec.Len
	vsym.Assert(okBytes, "ac/C11-stored-bytes-are-a-whole-serialised-message")
	if rec == nil {
		return
	}
	st, isAR := rec.Snap.(*pb.ActionResult)
	vsym.Assert(isAR && st != nil, "ac/C11-stored-message-is-an-action-result")
	if !isAR || st == nil {
		return
	}
	vsym.Assert(validate.ActionResult(st) == nil, "ac/C11-stored-message-validates")
	same := st.ExitCode == 7 && len(st.OutputFiles) == 1 && st.OutputFiles[0] != nil &&
		len(st.OutputDirectories) == 1 && len(st.OutputSymlinks) == 1
	vsym.Assert(same, "ac/C11-stored-message-has-the-uploaded-fields")
	if !same {
		return
	}
	f := st.OutputFiles[0]
	vsym.Assert(f.Path == "out/f" && f.Digest != nil && f.Digest.Hash == vHashC, "ac/C11-stored-output-file-unchanged")
	vsym.Assert(int64(len(f.Contents)) == fileLen, "ac/C11-stored-file-contents-unchanged")
	vsym.Assert(int64(len(st.StdoutRaw)) == stdoutLen, "ac/C11-stored-stdout-unchanged")
	if stdoutLen > 0 {
		src, off, ok := vsym.Prov(st.StdoutRaw)
		vsym.Assert(ok && src == "stdout" && off == 0, "ac/C11-stored-stdout-bytes-unchanged")
	}
	vsym.Assert(st.OutputDirectories[0].Path == "out/d" && st.OutputSymlinks[0].Target == "f", "ac/C11-stored-dirs-and-symlinks-unchanged")
	okMeta := st.ExecutionMetadata != nil && st.ExecutionMetadata.Worker != ""
	vsym.Assert(okMeta, "ac/C11-worker-name-filled-in")
	if okMeta && hadWorker != "" {
		vsym.Assert(st.ExecutionMetadata.Worker == hadWorker, "ac/C11-given-worker-name-kept")
	}
}

func VerifUpdateActionResult() {
	c := &vCache{maxBlobSize: 1 << 40, good: map[string]bool{}}
	s := vNewServer(c)
	ar, valid, stdoutLen, fileLen := vUploadedResult(c)
	worker := ""
	otherMeta := false
	if ar != nil {
		switch vsym.Choose("worker-given", 3) {
		case 1:
			worker = "builder-7"
			ar.ExecutionMetadata = &pb.ExecutedActionMetadata{Worker: worker}
		case 2:
			// metadata without a worker name: only the name is filled in
			otherMeta = true
			ar.ExecutionMetadata = &pb.ExecutedActionMetadata{QueuedTimestamp: &timestamppb.Timestamp{Seconds: 1000}}
		}
	}
	req := &pb.UpdateActionResultRequest{ActionDigest: &pb.Digest{Hash: vHashA, SizeBytes: 9}, ActionResult: ar}

	res, err := s.UpdateActionResult(context.Background(), req)

	vsym.Reach("update-action-result-returned")
	if !valid {
		vsym.Reach("update-invalid")
		vsym.Assert(err != nil, "ac/C11-invalid-action-result-accepted")
		vsym.Assert(len(c.puts) == 0, "ac/C11-rejected-upload-stored-something")
		return
	}
	// every Put succeeds in this harness
	vsym.Assert(err == nil && res != nil, "ac/C11-valid-action-result-refused")
	if err != nil {
		return
	}
	vsym.Reach("update-accepted")
	vCheckStoredResult(c, vHashA, ar, worker, stdoutLen, fileLen)
	if otherMeta {
		for _, m := range vmodel.Marshalled {
			if st, ok := m.Snap.(*pb.ActionResult); ok && st.ExecutionMetadata != nil {
				qt := st.ExecutionMetadata.QueuedTimestamp
				vsym.Assert(qt != nil && qt.Seconds == 1000, "ac/C11-uploaded-execution-metadata-kept")
			}
		}
		vsym.Assert(res.ExecutionMetadata != nil && res.ExecutionMetadata.QueuedTimestamp != nil, "ac/C11-returned-execution-metadata-kept")
	}
	if stdoutLen > 0 {
		n, p := vCountPuts(c, cache.CAS, vHashB)
		ok := n == 1 && p.err == nil && p.size == stdoutLen && p.src == "stdout" && p.contig && p.srcOff == 0
		vsym.Assert(ok, "ac/C11-inline-stdout-also-stored-in-the-CAS-under-its-digest")
	}
	if fileLen > 0 {
		n, p := vCountPuts(c, cache.CAS, vHashC)
		ok := n == 1 && p.err == nil && p.size == fileLen && p.src == "file" && p.contig && p.srcOff == 0
		vsym.Assert(ok, "ac/C11-inline-file-also-stored-in-the-CAS-under-its-digest")
	}
}

// With key mangling on, the write path validates the client's hash before it
// is mangled with the instance name: a string that is not a sha256 hex digest
// is refused and stores nothing (otherwise (h+x, y) collides with (h, x+y)).
func VerifUpdateActionResultKey() {
	c := &vCache{maxBlobSize: 1 << 40, good: map[string]bool{}}
	s := vNewServer(c)
	s.mangleACKeys = true
	hash := []string{vHashA, vHashA + "team-a/", vHashA[:63], vHashA[:63] + "G", "", "zz" + vHashA[2:], vHashA + "0"}[vsym.Choose("hash", 7)]
	inst := []string{"", "main", "team-a/main"}[vsym.Choose("instance", 3)]
	valid := hash == vHashA
	ar := &pb.ActionResult{ExitCode: 7}
	req := &pb.UpdateActionResultRequest{InstanceName: inst, ActionDigest: &pb.Digest{Hash: hash, SizeBytes: 9}, ActionResult: ar}

	_, err := s.UpdateActionResult(context.Background(), req)

	vsym.Reach("update-key-returned")
	if !valid {
		vsym.Reach("update-key-malformed")
		vsym.Assert(err != nil, "ac/C15-malformed-action-digest-accepted-when-mangling")
		vsym.Assert(len(c.puts) == 0, "ac/C15-malformed-action-digest-stored-something")
		return
	}
	vsym.Assert(err == nil, "ac/C15-well-formed-action-digest-refused")
	ok := len(c.puts) == 1
	vsym.Assert(ok, "ac/C15-one-entry-stored")
	if ok {
		vsym.Assert(c.puts[0].kind == cache.AC && c.puts[0].hash == cache.TransformActionCacheKey(vHashA, inst, vLog{}), "ac/C15-stored-under-the-key-of-its-instance")
	}
}
