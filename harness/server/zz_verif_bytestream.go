package server

// H14: ByteStream.Write / QueryWriteStatus / Read against the contract cache
// stub: the upload protocol (C16), acknowledgement only for stored blobs (C01),
// size limit (C18), every goroutine ends (C14).

import (
	"context"
	"io"

	"google.golang.org/genproto/googleapis/bytestream"
	"google.golang.org/grpc"

	"github.com/buchgr/bazel-remote/v2/cache"
	"github.com/buchgr/bazel-remote/v2/zzverif/vmodel"
	"github.com/buchgr/bazel-remote/v2/zzverif/vsym"
)

type vWriteStream struct {
	grpc.ServerStream
	msgs    []*bytestream.WriteRequest
	pos     int
	endErr  error // what Recv returns after the last message (io.EOF or a transport error)
	resp    *bytestream.WriteResponse
	sendErr error
}

func (s *vWriteStream) Context() context.Context { return context.Background() }
func (s *vWriteStream) Recv() (*bytestream.WriteRequest, error) {
	if s.pos < len(s.msgs) {
		m := s.msgs[s.pos]
		s.pos++
		return m, nil
	}
	return nil, s.endErr
}
func (s *vWriteStream) SendAndClose(r *bytestream.WriteResponse) error {
	cp := *r
	s.resp = &cp
	return s.sendErr
}

const vDeclSize = 5 // declared size in the resource name (the relation to the bytes sent is symbolic)

// vWriteIdentity: an upload to uploads/<uuid>/blobs/<hash>/5 in 1..maxMsgs
// messages of arbitrary lengths.
func vWriteIdentity(maxMsgs int) { vWriteIdentityX(maxMsgs, 3) }

// preCases: 2 = the blob is absent or present; 3 = also "the hash is cached with another size"
func vWriteIdentityX(maxMsgs int, preCases int) {
	c := &vCache{maxBlobSize: vsym.Int64("maxBlobSize"), good: map[string]bool{}, exists: map[string]bool{}, existsSize: map[string]int64{}}
	vsym.Assume(c.maxBlobSize > 0)
	pre := false
	switch vsym.Choose("preexisting", preCases) {
	case 1:
		pre = true
		c.exists[vHashA] = true
		c.existsSize[vHashA] = vDeclSize
	case 2:
		// an entry for the same hash with another size does not make the
		// declared (hash, size) present
		c.exists[vHashA] = true
		c.existsSize[vHashA] = vsym.Int64("otherSize")
		vsym.Assume(c.existsSize[vHashA] >= 0)
		vsym.Assume(c.existsSize[vHashA] != vDeclSize)
	}
	c.good["client"] = vsym.Bool("bytes-are-the-blob")
	s := vNewServer(c)
	name := "instance/uploads/uuid-1/blobs/" + vHashA + "/5"
	n := 1 + vsym.Choose("messages", maxMsgs)
	st := &vWriteStream{endErr: io.EOF}
	if vsym.Choose("aborted", 2) == 1 {
		st.endErr = vErrClient
	}
	total := int64(0)
	firstOffset := int64(0)
	changed := false
	finished := false
	for i := 0; i < n; i++ {
		l := vsym.Int64("len")
		vsym.Assume(l >= 0)
		vsym.Assume(l <= 8)
		data := vsym.MakeBytes(int(l))
		vsym.Fill(data, int(l), "client", total)
		m := &bytestream.WriteRequest{Data: data}
		switch {
		case i == 0:
			m.ResourceName = name
			m.WriteOffset = vsym.Int64("writeOffset")
			firstOffset = m.WriteOffset
		default:
			switch vsym.Choose("laterName", 3) {
			case 0:
			case 1:
				m.ResourceName = name
			case 2:
				m.ResourceName = "instance/uploads/uuid-1/blobs/" + vHashB + "/5"
				changed = true
			}
		}
		if i == n-1 && vsym.Choose("finishWrite", 2) == 1 {
			m.FinishWrite = true
			finished = true
		}
		total += l
		st.msgs = append(st.msgs, m)
	}
	_ = finished

	err := s.Write(st)

	live := vsym.Quiesce()
	vsym.Assert(live == 0, "bytestream/C07-C14-no-goroutine-left-after-Write")
	stored := c.stored(cache.CAS, vHashA)
	if err == nil {
		vsym.Reach("write-ok")
		vsym.Assert(st.resp != nil, "bytestream/C16-success-sends-a-response")
		if st.resp == nil {
			return
		}
		if stored {
			vsym.Reach("write-ok-stored")
			vsym.Assert(st.resp.CommittedSize == total, "bytestream/C16-committed-size-is-the-number-of-bytes-sent")
			vsym.Assert(st.resp.CommittedSize == vDeclSize, "bytestream/C16-committed-size-is-the-blob-size")
			vsym.Assert(c.good["client"], "bytestream/C01-acknowledged-only-if-bytes-are-the-blob")
			vsym.Assert(firstOffset == 0, "bytestream/C16-non-zero-first-write-offset-accepted")
			vsym.Assert(!changed, "bytestream/C16-changed-resource-name-accepted")
			vsym.Assert(vDeclSize <= c.maxBlobSize, "bytestream/C18-oversize-upload-accepted")
		} else {
			vsym.Reach("write-ok-preexisting")
			vsym.Assert(pre, "bytestream/C01-C16-acknowledged-although-not-stored-and-not-present")
			vsym.Assert(st.resp.CommittedSize == vDeclSize, "bytestream/C16-early-return-reports-blob-size")
		}
	} else {
		vsym.Reach("write-error")
		vsym.Assert(st.resp == nil, "bytestream/C16-error-after-response")
		// a call that fails (changed resource name, aborted stream, bad offset,
		// wrong bytes ...) has stored nothing, not even a moment later
		vsym.Assert(!stored, "bytestream/C01-C16-failed-write-stored-the-blob")
		if !pre {
			// everything fine => must succeed
			fine := vsym.And(vsym.And(firstOffset == 0, total == vDeclSize), vsym.And(c.good["client"], vDeclSize <= c.maxBlobSize))
			fine = vsym.And(fine, vsym.And(!changed, st.endErr == io.EOF))
			vsym.Assert(vsym.Not(fine), "bytestream/C16-well-formed-upload-is-accepted")
		}
	}
	if !pre {
		// a failed or malformed upload stores nothing under the claimed digest
		bad := vsym.Or(vsym.Or(firstOffset != 0, total != vDeclSize), vsym.Not(c.good["client"]))
		if stored {
			vsym.Assert(vsym.Not(bad), "bytestream/C01-malformed-upload-made-the-digest-present")
		}
	}
}

// vWriteZstd: an upload to uploads/<uuid>/compressed-blobs/zstd/<hash>/5.
// The compressed stream ("client", total length = bytes sent) decodes to a
// logical stream of symbolic length, or is corrupt.
func vWriteZstd(maxMsgs int) {
	c := &vCache{maxBlobSize: vsym.Int64("maxBlobSize"), good: map[string]bool{}, exists: map[string]bool{}, existsSize: map[string]int64{}}
	vsym.Assume(c.maxBlobSize > 0)
	pre := vsym.Choose("preexisting", 2) == 1
	if pre {
		c.exists[vHashA] = true
		c.existsSize[vHashA] = vDeclSize
	}
	c.good["client-decoded"] = vsym.Bool("decoded-bytes-are-the-blob")
	s := vNewServer(c)
	name := "uploads/uuid-1/compressed-blobs/zstd/" + vHashA + "/5"
	n := 1 + vsym.Choose("messages", maxMsgs)
	st := &vWriteStream{endErr: io.EOF}
	total := int64(0)
	firstOffset := int64(0)
	for i := 0; i < n; i++ {
		l := vsym.Int64("len")
		vsym.Assume(l >= 0)
		vsym.Assume(l <= 8)
		data := vsym.MakeBytes(int(l))
		vsym.Fill(data, int(l), "client", total)
		m := &bytestream.WriteRequest{Data: data}
		if i == 0 {
			m.ResourceName = name
			m.WriteOffset = vsym.Int64("writeOffset")
			firstOffset = m.WriteOffset
		}
		if i == n-1 && vsym.Choose("finishWrite", 2) == 1 {
			m.FinishWrite = true
		}
		total += l
		st.msgs = append(st.msgs, m)
	}
	vmodel.ZstdUpload.CompressedSrc = "client"
	vmodel.ZstdUpload.CompressedLen = total
	vmodel.ZstdUpload.DecodedSrc = "client-decoded"
	vmodel.ZstdUpload.DecodedLen = vsym.Int64("decodedLen")
	vsym.Assume(vmodel.ZstdUpload.DecodedLen >= 0)
	vsym.Assume(vmodel.ZstdUpload.DecodedLen <= 16)
	vmodel.ZstdUpload.Corrupt = vsym.Bool("corrupt")

	err := s.Write(st)

	live := vsym.Quiesce()
	vsym.Assert(live == 0, "bytestream/C07-C14-no-goroutine-left-after-Write")
	stored := c.stored(cache.CAS, vHashA)
	goodBlob := vsym.And(vsym.And(vsym.Not(vmodel.ZstdUpload.Corrupt), vmodel.ZstdUpload.DecodedLen == vDeclSize), c.good["client-decoded"])
	if err == nil {
		vsym.Reach("zstd-write-ok")
		vsym.Assert(st.resp != nil, "bytestream/C16-success-sends-a-response")
		if st.resp == nil {
			return
		}
		if stored {
			vsym.Reach("zstd-write-ok-stored")
			vsym.Assert(st.resp.CommittedSize == total, "bytestream/C16-committed-size-is-the-number-of-bytes-sent")
			vsym.Assert(goodBlob, "bytestream/C01-acknowledged-only-if-decoded-bytes-are-the-blob")
			vsym.Assert(firstOffset == 0, "bytestream/C16-non-zero-first-write-offset-accepted")
			vsym.Assert(vDeclSize <= c.maxBlobSize, "bytestream/C18-oversize-upload-accepted")
		} else {
			vsym.Reach("zstd-write-ok-preexisting")
			vsym.Assert(pre, "bytestream/C01-C16-acknowledged-although-not-stored-and-not-present")
			vsym.Assert(st.resp.CommittedSize == -1, "bytestream/C16-early-return-for-compressed-upload-reports-minus-one")
		}
	} else {
		vsym.Reach("zstd-write-error")
	}
	if !pre && stored {
		vsym.Assert(vsym.And(goodBlob, firstOffset == 0), "bytestream/C01-malformed-upload-made-the-digest-present")
	}
}

func VerifBytestreamWriteZstd2() { vWriteZstd(2) }

func VerifBytestreamWrite2() { vWriteIdentity(2) }
func VerifBytestreamWrite3() { vWriteIdentityX(3, 2) }

// ---- QueryWriteStatus

func VerifQueryWriteStatus() {
	c := &vCache{maxBlobSize: 1 << 40, exists: map[string]bool{}, existsSize: map[string]int64{}}
	present := false
	switch vsym.Choose("exists", 3) {
	case 1:
		present = true
		c.exists[vHashA] = true
		c.existsSize[vHashA] = 5
	case 2:
		// the hash is cached with another size: (hash, 5) is not complete
		c.exists[vHashA] = true
		c.existsSize[vHashA] = vsym.Int64("otherSize")
		vsym.Assume(c.existsSize[vHashA] >= 0)
		vsym.Assume(c.existsSize[vHashA] != 5)
	}
	s := vNewServer(c)
	resp, err := s.QueryWriteStatus(context.Background(), &bytestream.QueryWriteStatusRequest{ResourceName: "uploads/u/blobs/" + vHashA + "/5"})
	vsym.Reach("qws")
	vsym.Assert(err == nil && resp != nil, "bytestream/C16-query-write-status-answers")
	if resp != nil {
		vsym.Assert(resp.Complete == present, "bytestream/C16-complete-exactly-when-present")
		if present {
			vsym.Assert(resp.CommittedSize == 5, "bytestream/C16-complete-reports-full-size")
		} else {
			vsym.Assert(resp.CommittedSize == 0, "bytestream/C16-incomplete-reports-zero")
		}
	}
	r2, err2 := s.QueryWriteStatus(context.Background(), nil)
	vsym.Assert(r2 == nil && err2 != nil, "bytestream/C14-nil-request-rejected")
}
