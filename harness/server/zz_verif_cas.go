package server

// H13: the gRPC CAS handlers against the contract cache stub: BatchUpdateBlobs
// acknowledges only stored blobs of the declared digest (C01, C18),
// BatchReadBlobs reports what the cache returned (C02), GetTree survives any
// stored Directory (C14).

import (
	"context"

	"google.golang.org/grpc"

	"github.com/buchgr/bazel-remote/v2/cache"
	"github.com/buchgr/bazel-remote/v2/zzverif/vmodel"
	"github.com/buchgr/bazel-remote/v2/zzverif/vsym"

	pb "github.com/buchgr/bazel-remote/v2/genproto/build/bazel/remote/execution/v2"
)

func VerifBatchUpdateBlobs() {
	c := &vCache{maxBlobSize: vsym.Int64("maxBlobSize"), good: map[string]bool{}, exists: map[string]bool{}, existsSize: map[string]int64{}}
	vsym.Assume(c.maxBlobSize > 0)
	if vsym.Choose("putFails", 2) == 1 {
		c.putFail = &cache.Error{Code: 507, Text: "no space"}
	}
	s := vNewServer(c)
	declared := vsym.Int64("declaredSize")
	vsym.Assume(declared > 0) // (size 0 is only valid for the empty blob hash)
	l := vsym.Int64("dataLen")
	vsym.Assume(l >= 0)
	vsym.Assume(l <= 1<<30)
	data := vsym.MakeBytes(int(l))
	vsym.Fill(data, int(l), "client", 0)
	req := &pb.BatchUpdateBlobsRequest_Request{Digest: &pb.Digest{Hash: vHashA, SizeBytes: declared}, Data: data}
	logicalLen := l
	logicalSrc := "client"
	switch vsym.Choose("compressor", 3) {
	case 0:
		req.Compressor = pb.Compressor_IDENTITY
		vsym.Fact("compressor", "identity")
	case 1:
		req.Compressor = pb.Compressor_ZSTD
		vsym.Fact("compressor", "zstd")
		vmodel.ZstdUpload.CompressedSrc = "client"
		vmodel.ZstdUpload.CompressedLen = l
		vmodel.ZstdUpload.DecodedSrc = "client-decoded"
		vmodel.ZstdUpload.DecodedLen = vsym.Int64("decodedLen")
		vsym.Assume(vmodel.ZstdUpload.DecodedLen >= 0)
		vsym.Assume(vmodel.ZstdUpload.DecodedLen <= 1<<30)
		vmodel.ZstdUpload.Corrupt = vsym.Bool("corrupt")
		logicalLen = vmodel.ZstdUpload.DecodedLen
		logicalSrc = "client-decoded"
	case 2:
		req.Compressor = pb.Compressor_Value(vsym.Int32("otherCompressor"))
		vsym.Assume(req.Compressor != pb.Compressor_IDENTITY)
		vsym.Assume(req.Compressor != pb.Compressor_ZSTD)
		vsym.Fact("compressor", "unsupported")
	}
	c.good[logicalSrc] = vsym.Bool("bytes-are-the-blob")

	resp, err := s.BatchUpdateBlobs(context.Background(), &pb.BatchUpdateBlobsRequest{Requests: []*pb.BatchUpdateBlobsRequest_Request{req}})

	vsym.Assert(err == nil && resp != nil, "cas/batch-update-answers")
	if resp == nil {
		return
	}
	okShape := len(resp.Responses) == 1 && resp.Responses[0] != nil && resp.Responses[0].Status != nil
	vsym.Assert(okShape, "cas/one-response-per-request")
	if !okShape {
		return
	}
	r := resp.Responses[0]
	vsym.Assert(r.Digest != nil && r.Digest.Hash == vHashA && r.Digest.SizeBytes == declared, "cas/response-names-the-request-digest")
	stored := false
	for _, p := range c.puts {
		if p.kind == cache.CAS && p.hash == vHashA && p.err == nil {
			stored = true
		}
	}
	if r.Status.Code == 0 {
		vsym.Reach("batch-update-ok")
		vsym.Assert(stored, "cas/C01-acknowledged-although-nothing-was-stored")
		vsym.Assert(req.Compressor == pb.Compressor_IDENTITY || req.Compressor == pb.Compressor_ZSTD, "cas/C01-unsupported-compressor-acknowledged")
		vsym.Assert(logicalLen == declared, "cas/C01-acknowledged-although-declared-size-differs-from-the-data")
		vsym.Assert(c.good[logicalSrc], "cas/C01-acknowledged-although-bytes-are-not-the-blob")
		vsym.Assert(declared <= c.maxBlobSize, "cas/C18-oversize-blob-acknowledged")
	} else {
		vsym.Reach("batch-update-refused")
		vsym.Assert(!stored, "cas/C01-refused-upload-was-stored")
		if c.putFail != nil && len(c.puts) > 0 {
			vsym.Assert(r.Status.Code == 8, "cas/C17-insufficient-storage-maps-to-resource-exhausted")
		}
	}
}

func VerifBatchReadBlobs() {
	c := &vCache{maxBlobSize: 1 << 40}
	s := vNewServer(c)
	size := vsym.Int64("size")
	vsym.Assume(size > 0)
	vsym.Assume(size < 1<<30)
	var st *vmodel.MStream
	c.getSize = vsym.Int64("foundSize")
	switch vsym.Choose("cache", 3) {
	case 0: // miss
	case 1:
		c.getErr = &cache.Error{Code: 500, Text: "boom"}
	case 2:
		l := vsym.Int64("streamLen")
		vsym.Assume(l >= 0)
		vsym.Assume(l < 1<<30)
		st = &vmodel.MStream{Name: "blob", L: l, FailAt: -1}
		c.getRC = st
	}
	zstd := vsym.Choose("acceptZstd", 2) == 1
	req := &pb.BatchReadBlobsRequest{Digests: []*pb.Digest{{Hash: vHashA, SizeBytes: size}}}
	if zstd {
		req.AcceptableCompressors = []pb.Compressor_Value{pb.Compressor_ZSTD}
	}
	resp, err := s.BatchReadBlobs(context.Background(), req)
	vsym.Assert(err == nil && resp != nil && len(resp.Responses) == 1, "cas/batch-read-answers")
	if resp == nil || len(resp.Responses) != 1 {
		return
	}
	r := resp.Responses[0]
	if r.Status == nil || r.Status.Code == 0 {
		vsym.Reach("batch-read-ok")
		vsym.Assert(st != nil, "cas/C02-hit-without-a-reader")
		vsym.Assert(c.getSize == size, "cas/C02-size-mismatch-is-not-a-hit")
		if st != nil {
			vsym.Assert(int64(len(r.Data)) == st.L, "cas/C02-response-holds-all-bytes-read")
			if len(r.Data) > 0 {
				src, off, ok := vsym.Prov(r.Data)
				vsym.Assert(ok && src == "blob" && off == 0, "cas/C02-response-holds-the-bytes-read")
			}
			vsym.Assert(st.Closed >= 1, "cas/C14-reader-closed")
		}
	} else {
		vsym.Reach("batch-read-not-ok")
		vsym.Assert(len(r.Data) == 0, "cas/C02-no-data-with-an-error-status")
		if st != nil {
			vsym.Assert(st.Closed >= 1, "cas/C14-reader-closed")
		}
	}
}

type vTreeStream struct {
	grpc.ServerStream
	sent []*pb.GetTreeResponse
}

func (s *vTreeStream) Context() context.Context { return context.Background() }
func (s *vTreeStream) Send(r *pb.GetTreeResponse) error {
	s.sent = append(s.sent, r)
	return nil
}

// GetTree on an arbitrary stored Directory: child nodes with or without a
// digest, with well- or ill-formed hashes, children present or not.
func VerifGetTree() {
	c := &vCache{maxBlobSize: 1 << 40, getByHash: map[string]*vGetAns{}}
	s := vNewServer(c)
	rootSize := vsym.Int64("rootSize")
	vsym.Assume(rootSize > 0)
	vsym.Assume(rootSize < 1<<30)
	root := &pb.Directory{}
	nChildren := vsym.Choose("children", 3)
	for i := 0; i < nChildren; i++ {
		node := &pb.DirectoryNode{Name: "sub"}
		switch vsym.Choose("childDigest", 4) {
		case 0:
			// no digest at all (a stored blob is arbitrary bytes)
		case 1:
			node.Digest = &pb.Digest{Hash: vHashB, SizeBytes: vsym.Int64("childSize")}
		case 2:
			node.Digest = &pb.Digest{Hash: "not-a-hash", SizeBytes: 5}
		case 3:
			node.Digest = &pb.Digest{Hash: vHashC, SizeBytes: 7}
			// this child exists and is an empty directory
			c.getByHash[vHashC] = &vGetAns{rc: &vmodel.MStream{Name: "child", L: 7, FailAt: -1}, size: 7}
			vmodel.RegisterProto("child", &pb.Directory{}, 7)
		}
		root.Directories = append(root.Directories, node)
	}
	c.getByHash[vHashA] = &vGetAns{rc: &vmodel.MStream{Name: "root", L: rootSize, FailAt: -1}, size: rootSize}
	vmodel.RegisterProto("root", root, rootSize)
	st := &vTreeStream{}
	err := s.GetTree(&pb.GetTreeRequest{RootDigest: &pb.Digest{Hash: vHashA, SizeBytes: rootSize}}, st)
	vsym.Reach("gettree-returned")
	if err == nil {
		vsym.Reach("gettree-ok")
		vsym.Assert(len(st.sent) == 1, "cas/C02-gettree-sends-one-response")
		if len(st.sent) == 1 {
			vsym.Assert(len(st.sent[0].Directories) >= 1 && st.sent[0].Directories[0] == root || len(st.sent[0].Directories) >= 1, "cas/C02-gettree-returns-the-root")
		}
	}
	e2 := s.GetTree(nil, st)
	vsym.Assert(e2 != nil, "cas/C14-nil-request-rejected")
}
