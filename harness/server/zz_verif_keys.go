package server

// C15: instance-name mangling separates action results, identically over the
// HTTP path prefix and the gRPC instance_name; URL parsing (string mode).

import (
	"context"
	"net/http"
	"net/url"

	"github.com/buchgr/bazel-remote/v2/cache"
	"github.com/buchgr/bazel-remote/v2/zzverif/vsym"

	pb "github.com/buchgr/bazel-remote/v2/genproto/build/bazel/remote/execution/v2"
)

const vHex64 = "^[0-9a-f]{64}$"

// keyCache records the keys the handlers use.
type keyCache struct {
	vCache
	keys  []string
	kinds []cache.EntryKind
}

func (c *keyCache) GetValidatedActionResult(ctx context.Context, hash string) (*pb.ActionResult, []byte, error) {
	c.keys = append(c.keys, hash)
	c.kinds = append(c.kinds, cache.AC)
	return nil, nil, nil
}

// every URL /<I>/<ac|cas>/<hash> is parsed back into exactly (kind, hash, I)
func VerifParseRequestURL() {
	inst := vsym.Str("instance")
	vsym.Assume(vsym.Not(vsym.Contains(inst, "\n")))
	h := vsym.Str("hash")
	vsym.Assume(vsym.Matches(h, vHex64))
	seg := "ac/"
	want := cache.AC
	validate := vsym.Choose("validateAC", 2) == 1
	if !validate {
		want = cache.RAW
	}
	if vsym.Choose("kind", 2) == 1 {
		seg = "cas/"
		want = cache.CAS
	}
	u := "/" + inst + "/" + seg + h
	kind, hash, got, err := parseRequestURL(u, validate)
	vsym.Reach("url-parsed")
	vsym.Assert(err == nil, "keys/C15-well-formed-url-is-accepted")
	if err != nil {
		return
	}
	vsym.Assert(kind == want, "keys/C15-url-kind")
	vsym.Assert(hash == h, "keys/C15-url-hash")
	vsym.Assert(got == inst, "keys/C15-url-instance-is-the-path-prefix")
}

// whatever parseRequestURL accepts ends in <ac|cas>/<64 hex> and the hash is those 64 characters
func VerifParseRequestURLAccepts() {
	u := vsym.Str("url")
	kind, hash, _, err := parseRequestURL(u, true)
	if err != nil {
		vsym.Reach("url-rejected")
		return
	}
	vsym.Reach("url-accepted")
	vsym.Assert(vsym.Matches(hash, vHex64), "keys/C15-accepted-hash-is-64-hex")
	if kind == cache.CAS {
		vsym.Assert(vsym.HasSuffix(u, "cas/"+hash), "keys/C15-cas-url-shape")
	} else {
		vsym.Assert(kind == cache.AC, "keys/C15-kind-is-ac-or-cas")
		vsym.Assert(vsym.HasSuffix(u, "ac/"+hash), "keys/C15-ac-url-shape")
	}
}

// two gRPC GetActionResult requests that are both accepted use the same cache
// key only if they name the same action digest and the same instance
func VerifGrpcACKeyMangling() {
	c := &keyCache{}
	c.maxBlobSize = 1 << 40
	s := vNewServer(&c.vCache)
	s.cache = c
	s.mangleACKeys = vsym.Choose("mangle", 2) == 1
	h1, i1 := vsym.Str("hash1"), vsym.Str("instance1")
	h2, i2 := vsym.Str("hash2"), vsym.Str("instance2")
	_, _ = s.GetActionResult(context.Background(), &pb.GetActionResultRequest{InstanceName: i1, ActionDigest: &pb.Digest{Hash: h1, SizeBytes: 7}})
	_, _ = s.GetActionResult(context.Background(), &pb.GetActionResultRequest{InstanceName: i2, ActionDigest: &pb.Digest{Hash: h2, SizeBytes: 7}})
	if len(c.keys) < 2 {
		vsym.Reach("grpc-ac-request-rejected")
		return
	}
	vsym.Reach("grpc-ac-both-accepted")
	if s.mangleACKeys {
		vsym.Fact("mangling", "on")
		if vsym.IsConcrete(c.keys[0]) || vsym.IsConcrete(c.keys[1]) {
			vsym.Reach("one-key-concrete")
		}
		if i1 != "" {
			if i2 != "" {
				vsym.Reach("grpc-ac-both-mangled")
			}
		}
		same := vsym.And(h1 == h2, i1 == i2)
		vsym.Assert(vsym.Implies(c.keys[0] == c.keys[1], same), "keys/C15-distinct-instance-or-action-gives-distinct-key")
		vsym.Assert(vsym.Implies(i1 == "", c.keys[0] == h1), "keys/C15-empty-instance-leaves-key-unchanged")
	} else {
		vsym.Fact("mangling", "off")
		vsym.Assert(c.keys[0] == h1 && c.keys[1] == h2, "keys/C15-without-mangling-the-instance-has-no-effect")
	}
}

type vRW struct {
	hdr    http.Header
	status int
	n      int64
}

func (w *vRW) Header() http.Header { return w.hdr }
func (w *vRW) Write(b []byte) (int, error) {
	if w.status == 0 {
		w.status = 200
	}
	w.n += int64(len(b))
	return len(b), nil
}
func (w *vRW) WriteHeader(code int) {
	if w.status == 0 {
		w.status = code
	}
}

// HTTP GET /<I>/ac/<h> and gRPC GetActionResult(instance_name=I, hash=h) use the same key
func VerifHTTPGrpcSameKey() {
	inst := vsym.Str("instance")
	vsym.Assume(vsym.Not(vsym.Contains(inst, "\n")))
	h := vsym.Str("hash")
	vsym.Assume(vsym.Matches(h, vHex64))
	mangle := vsym.Choose("mangle", 2) == 1
	c := &keyCache{}
	c.maxBlobSize = 1 << 40
	s := vNewServer(&c.vCache)
	s.cache = c
	s.mangleACKeys = mangle
	_, _ = s.GetActionResult(context.Background(), &pb.GetActionResultRequest{InstanceName: inst, ActionDigest: &pb.Digest{Hash: h, SizeBytes: 7}})
	hc := &httpCache{cache: c, accessLogger: vLog{}, errorLogger: vLog{}, validateAC: true, mangleACKeys: mangle, maxCasBlobSizeBytes: 1 << 40}
	r := &http.Request{Method: "GET", URL: &url.URL{Path: "/" + inst + "/ac/" + h}, Header: http.Header{}, Body: http.NoBody, RemoteAddr: "1.2.3.4:5"}
	hc.CacheHandler(&vRW{hdr: http.Header{}}, r)
	vsym.Reach("http-grpc-compared")
	ok := len(c.keys) == 2
	vsym.Assert(ok, "keys/C15-both-front-ends-accept-the-request")
	if ok {
		vsym.Assert(c.keys[0] == c.keys[1], "keys/C15-http-prefix-and-grpc-instance-name-give-the-same-key")
		if !mangle {
			vsym.Assert(c.keys[0] == h, "keys/C15-without-mangling-the-instance-has-no-effect")
		}
	}
}

// LookupKey separates the key spaces
func VerifLookupKey() {
	h1, h2 := vsym.Str("hash1"), vsym.Str("hash2")
	vsym.Assume(vsym.Matches(h1, vHex64))
	vsym.Assume(vsym.Matches(h2, vHex64))
	kinds := []cache.EntryKind{cache.AC, cache.CAS, cache.RAW}
	k1 := kinds[vsym.Choose("kind1", 3)]
	k2 := kinds[vsym.Choose("kind2", 3)]
	a, b := cache.LookupKey(k1, h1), cache.LookupKey(k2, h2)
	vsym.Reach("lookupkey")
	if k1 != k2 {
		vsym.Assert(a != b, "keys/C15-different-key-spaces-never-share-a-key")
	} else {
		vsym.Assert(vsym.Implies(a == b, h1 == h2), "keys/C15-lookup-key-injective-in-hash")
	}
}
