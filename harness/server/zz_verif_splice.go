package server

// H13b: SpliceBlob against a contract stub of the cache. Put may refuse for
// lack of space; like disk.Put ("All data will be read from r before this
// function returns") it drains its reader on every return.
// Serves C01 (an acknowledged splice is stored and is the concatenation),
// C18 (size limit), C14 (no goroutine / reader left behind).

import (
	"context"
	"io"

	"google.golang.org/grpc/codes"
	"google.golang.org/grpc/status"

	"github.com/buchgr/bazel-remote/v2/cache"
	"github.com/buchgr/bazel-remote/v2/zzverif/vmodel"
	"github.com/buchgr/bazel-remote/v2/zzverif/vsym"

	pb "github.com/buchgr/bazel-remote/v2/genproto/build/bazel/remote/execution/v2"
)

type vSeg struct {
	src string
	off int64
	n   int64
}

// spliceCache: Get serves the chunks; Put records the segments it was handed.
type spliceCache struct {
	vCache
	chunks    map[string]*vmodel.MStream // per hash: nil = absent
	chunkSize map[string]int64
	opened    []*vmodel.MStream
	earlyFail error // Put refuses (no space); the reader is still drained
	segs      []vSeg
	putCalls  int
	putErr    error
	putSize   int64
	putHash   string
	isBlob    bool // the concatenation of the chunks is the blob with the declared digest
	want      []vSeg
}

func (c *spliceCache) Get(ctx context.Context, kind cache.EntryKind, hash string, size int64, offset int64) (io.ReadCloser, int64, error) {
	st := c.chunks[hash]
	if st == nil || kind != cache.CAS || size != c.chunkSize[hash] {
		return nil, -1, nil
	}
	// every Get opens a fresh reader of the chunk
	r := &vmodel.MStream{Name: st.Name, L: st.L, FailAt: st.FailAt, Err: st.Err}
	c.opened = append(c.opened, r)
	return r, c.chunkSize[hash], nil
}

func (c *spliceCache) Put(ctx context.Context, kind cache.EntryKind, hash string, size int64, r io.Reader) error {
	c.putCalls++
	c.putHash, c.putSize = hash, size
	var rerr error
	got := int64(0)
	for i := 0; i < 8; i++ {
		buf := vsym.MakeBytes(vmodel.CopyBuf)
		n, err := r.Read(buf)
		if n > 0 {
			s, off, ok := vsym.Prov(buf[:n])
			if !ok {
				s = "?"
			}
			c.segs = append(c.segs, vSeg{s, off, int64(n)})
			got += int64(n)
		}
		if err == io.EOF {
			break
		}
		if err != nil {
			rerr = err
			break
		}
		if i == 7 {
			vsym.Stop("splice stub Put: reader did not end within the read bound")
		}
	}
	same := len(c.segs) == len(c.want)
	if same {
		for i := range c.want {
			if c.segs[i] != c.want[i] {
				same = false
			}
		}
	}
	switch {
	case c.earlyFail != nil:
		c.putErr = c.earlyFail
	case kind != cache.CAS:
		c.putErr = &cache.Error{Code: 400, Text: "not a CAS upload"}
	case rerr != nil:
		c.putErr = &cache.Error{Code: 500, Text: "read error"}
	case got != size || !same || !c.isBlob:
		c.putErr = vErrMismatch
	}
	return c.putErr
}

func VerifSpliceBlob() {
	c := &spliceCache{chunks: map[string]*vmodel.MStream{}, chunkSize: map[string]int64{}}
	c.exists = map[string]bool{}
	c.existsSize = map[string]int64{}
	maxBlob := vsym.Int64("maxBlobSize")
	vsym.Assume(maxBlob > 0)
	s := &grpcServer{cache: c, accessLogger: vLog{}, errorLogger: vLog{}, depsCheck: true, maxCasBlobSizeBytes: maxBlob}
	sB := vsym.Int64("chunkBSize")
	sC := vsym.Int64("chunkCSize")
	vsym.Assume(sB >= 1)
	vsym.Assume(sB < 1<<30)
	vsym.Assume(sC >= 1)
	vsym.Assume(sC < 1<<30)
	haveB := vsym.Choose("chunkBPresent", 2) == 1
	haveC := vsym.Choose("chunkCPresent", 2) == 1
	if haveB {
		c.chunks[vHashB], c.chunkSize[vHashB] = &vmodel.MStream{Name: "chunkB", L: sB, FailAt: -1}, sB
	}
	if haveC {
		c.chunks[vHashC], c.chunkSize[vHashC] = &vmodel.MStream{Name: "chunkC", L: sC, FailAt: -1}, sC
	}
	c.want = []vSeg{{"chunkB", 0, sB}, {"chunkC", 0, sC}}
	c.isBlob = vsym.Bool("concatenation-is-the-blob")
	declared := vsym.Int64("declaredSize")
	already := false
	switch vsym.Choose("cacheState", 3) {
	case 1:
		c.earlyFail = &cache.Error{Code: 507, Text: "no space"}
	case 2:
		already = true
		c.exists[vHashA] = true
		c.existsSize[vHashA] = declared
	}
	req := &pb.SpliceBlobRequest{
		BlobDigest:   &pb.Digest{Hash: vHashA, SizeBytes: declared},
		ChunkDigests: []*pb.Digest{{Hash: vHashB, SizeBytes: sB}, {Hash: vHashC, SizeBytes: sC}},
	}

	resp, err := s.SpliceBlob(context.Background(), req)

	vsym.Reach("splice-returned")
	// whatever the outcome: no goroutine, no chunk reader left open
	vsym.Assert(vsym.Quiesce() == 0, "splice/C14-no-goroutine-left")
	for _, r := range c.opened {
		vsym.Assert(r.Closed >= 1, "splice/C14-chunk-reader-closed")
	}
	stored := c.putCalls > 0 && c.putErr == nil
	if err == nil {
		vsym.Reach("splice-ok")
		vsym.Assert(resp != nil && resp.BlobDigest != nil && resp.BlobDigest.Hash == vHashA, "splice/C01-response-names-the-blob")
		vsym.Assert(declared == sB+sC, "splice/C01-acknowledged-although-sizes-do-not-add-up")
		vsym.Assert(declared <= maxBlob, "splice/C18-oversize-splice-acknowledged")
		if !already {
			vsym.Reach("splice-stored")
			vsym.Assert(stored, "splice/C01-acknowledged-although-nothing-was-stored")
			vsym.Assert(c.putHash == vHashA && c.putSize == declared, "splice/C01-stored-under-the-declared-digest")
			vsym.Assert(c.isBlob, "splice/C01-acknowledged-although-concatenation-is-not-the-blob")
			vsym.Assert(haveB && haveC, "splice/C01-acknowledged-although-a-chunk-is-absent")
		}
	} else {
		vsym.Reach("splice-error")
		vsym.Assert(resp == nil, "splice/error-with-response")
		vsym.Assert(!stored, "splice/C01-refused-splice-was-stored")
		if declared > maxBlob {
			vsym.Assert(c.putCalls == 0, "splice/C18-oversize-splice-not-attempted")
			vsym.Assert(status.Code(err) == codes.InvalidArgument, "splice/C18-oversize-splice-is-invalid-argument")
		}
		wellFormed := declared == sB+sC && declared <= maxBlob
		if wellFormed && !already && (!haveB || !haveC) && c.earlyFail == nil {
			vsym.Assert(status.Code(err) == codes.NotFound, "splice/C06-absent-chunk-is-not-found")
		}
		if wellFormed && haveB && haveC && c.isBlob && c.earlyFail == nil {
			vsym.Assert(false, "splice/C01-well-formed-splice-refused")
		}
	}
}
