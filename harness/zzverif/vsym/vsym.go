// Package vsym holds the intrinsics of the verification harnesses.
//
// Under the symbolic executor (gosmx) every function here is intercepted by
// name and never executed. The bodies below are the NATIVE implementation used
// when a counterexample is replayed as an ordinary `go test` against the real
// build: values come from the replay vector named by $VERIF_REPLAY.
package vsym

import (
	"crypto/sha256"
	"encoding/json"
	"fmt"
	"os"
	"regexp"
	"strings"
)

type replayT struct {
	Vars    map[string]int64 `json:"vars"`
	SVars   map[string]string `json:"svars"`
	Choices []int64          `json:"choices"`
}

var (
	rp     replayT
	pos    int
	names  = map[string]int{}
	failed []string
)

// LoadReplay reads the replay vector (native mode only).
func LoadReplay() {
	rp = replayT{}
	pos = 0
	names = map[string]int{}
	failed = nil
	if f := os.Getenv("VERIF_REPLAY"); f != "" {
		b, err := os.ReadFile(f)
		if err != nil {
			panic(err)
		}
		if err := json.Unmarshal(b, &rp); err != nil {
			panic(err)
		}
	}
}

func Failed() []string { return failed }

func uniq(name string) string {
	n := names[name]
	names[name]++
	if n > 0 {
		return fmt.Sprintf("%s!%d", name, n)
	}
	return name
}

func Int64(name string) int64   { return rp.Vars[uniq(name)] }
func Int(name string) int       { return int(rp.Vars[uniq(name)]) }
func Int32(name string) int32   { return int32(rp.Vars[uniq(name)]) }
func Uint64(name string) uint64 { return uint64(rp.Vars[uniq(name)]) }
func Uint32(name string) uint32 { return uint32(rp.Vars[uniq(name)]) }
func Uint8(name string) uint8   { return uint8(rp.Vars[uniq(name)]) }
func Bool(name string) bool     { return rp.Vars[uniq(name)] != 0 }

// Bytes returns n symbolic bytes name[0..n).
func Bytes(name string, n int) []byte {
	b := make([]byte, n)
	for i := range b {
		b[i] = uint8(rp.Vars[uniq(fmt.Sprintf("%s[%d]", name, i))])
	}
	return b
}

// Choose returns a value in [0,n); every value is explored.
func Choose(name string, n int) int {
	if n <= 1 {
		return 0
	}
	c := 0
	if pos < len(rp.Choices) {
		c = int(rp.Choices[pos])
	}
	pos++
	if c >= n {
		c = 0
	}
	return c
}

// Assume constrains the path. One comparison per Assume (no && / ||).
func Assume(b bool) {
	if !b {
		panic("VERIF-ASSUME-VIOLATED")
	}
}

// Assert is an obligation: path condition ∧ ¬b must be unsatisfiable.
func Assert(b bool, label string) {
	if !b {
		failed = append(failed, label)
		fmt.Println("VERIF-ASSERT-FAILED", label)
	}
}

// Reach is a vacuity witness: must be reached on at least one feasible path.
func Reach(label string) {}

// Unwind sets the bound on symbolic loop decisions per loop head.
func Unwind(n int) {}

// Fact attaches a discriminating fact to violations found on this path.
func Fact(key string, v interface{}) {}

// Yield is an explicit scheduling point.
func Yield() {}

// Quiesce runs all other goroutines until they finish or block; returns the
// number still alive.
func Quiesce() int { return 0 }

// Symbolic reports whether the harness runs under the symbolic executor.
func Symbolic() bool { return false }

// Stop ends the path quietly.
func Stop(why string) { panic("VERIF-STOP " + why) }

// Boolean connectives that do not fork paths.
func And(a, b bool) bool     { return a && b }
func Or(a, b bool) bool      { return a || b }
func Implies(a, b bool) bool { return !a || b }
func Not(a bool) bool        { return !a }

// Ite64 is a non-forking conditional.
func Ite64(c bool, a, b int64) int64 {
	if c {
		return a
	}
	return b
}

// --- opaque byte buffers with provenance (engine only; natively plain) ---

// MakeBytes returns a buffer of n bytes whose contents are opaque.
func MakeBytes(n int) []byte { return make([]byte, n) }

// Fill records that p[0:n] holds bytes [off, off+n) of abstract source src.
func Fill(p []byte, n int, src string, off int64) {}

// Prov returns the abstract source range held by p, if known.
func Prov(p []byte) (src string, off int64, ok bool) { return "", 0, false }

// IsConcrete reports whether v contains no symbolic part (always true natively).
func IsConcrete(v interface{}) bool { return true }

// Str returns an arbitrary (ASCII) string.
func Str(name string) string { return rp.SVars[uniq(name)] }

// Matches reports whether s matches the (anchored or not) regular expression.
func Matches(s, pattern string) bool { return regexp.MustCompile(pattern).MatchString(s) }

// HasPrefix is strings.HasPrefix (usable in specifications without forking).
func HasPrefix(s, p string) bool { return strings.HasPrefix(s, p) }

// Contains is strings.Contains (usable in specifications without forking).
func Contains(s, sub string) bool { return strings.Contains(s, sub) }

// AsString returns the string whose bytes p holds, when p is []byte(s).
func AsString(p []byte) (string, bool) { return string(p), true }

// DigestOf returns the (modelled, injective) sha256 digest of the bytes of s.
func DigestOf(s string) []byte { d := sha256.Sum256([]byte(s)); return d[:] }

// HasSuffix is strings.HasSuffix (usable in specifications without forking).
func HasSuffix(s, p string) bool { return strings.HasSuffix(s, p) }

// Decimal is the decimal text of n.
func Decimal(n int64) string { return fmt.Sprint(n) }
