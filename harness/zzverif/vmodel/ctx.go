package vmodel

// context.WithCancel / WithTimeout: a plain cancellable context.

import (
	"context"
	"time"
)

type MCtx struct {
	parent   context.Context
	done     chan struct{}
	err      error
	children []*MCtx
}

func (c *MCtx) Deadline() (time.Time, bool) { return time.Time{}, false }
func (c *MCtx) Done() <-chan struct{}       { return c.done }
func (c *MCtx) Err() error                  { return c.err }
func (c *MCtx) Value(key any) any {
	if c.parent != nil {
		return c.parent.Value(key)
	}
	return nil
}

func (c *MCtx) cancel(err error) {
	if c.err != nil {
		return
	}
	c.err = err
	close(c.done)
	for _, ch := range c.children {
		ch.cancel(err)
	}
}

func Context_WithCancel(parent context.Context) (context.Context, context.CancelFunc) {
	c := &MCtx{parent: parent, done: make(chan struct{})}
	if p, ok := parent.(*MCtx); ok {
		if p.err != nil {
			c.cancel(p.err)
		} else {
			p.children = append(p.children, c)
		}
	}
	return c, func() { c.cancel(context.Canceled) }
}

func Context_WithTimeout(parent context.Context, d time.Duration) (context.Context, context.CancelFunc) {
	return Context_WithCancel(parent)
}

// NewCancelledCtx returns an already cancelled context (harness helper).
func NewCancelledCtx() context.Context {
	c, cancel := Context_WithCancel(context.Background())
	cancel()
	return c
}

// context.WithValue without reflection.
type MValueCtx struct {
	context.Context
	key, val any
}

func (c *MValueCtx) Value(key any) any {
	if c.key == key {
		return c.val
	}
	return c.Context.Value(key)
}

func Context_WithValue(parent context.Context, key, val any) context.Context {
	return &MValueCtx{parent, key, val}
}
