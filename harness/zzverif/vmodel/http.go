package vmodel

// net/http at its API boundary: the ServeMux only records routes, the
// transport is outside every claim.

import (
	"io"
	"net"
	"net/http"
	"net/url"

	"github.com/buchgr/bazel-remote/v2/zzverif/vsym"
)

// MuxRoutes records what was registered on any ServeMux.
var MuxRoutes = map[string]http.Handler{}

func Http_NewServeMux() *http.ServeMux { return new(http.ServeMux) }

func Http_ServeMux_HandleFunc(mux *http.ServeMux, pattern string, handler func(http.ResponseWriter, *http.Request)) {
	MuxRoutes[pattern] = http.HandlerFunc(handler)
}

func Http_ServeMux_Handle(mux *http.ServeMux, pattern string, handler http.Handler) {
	MuxRoutes[pattern] = handler
}

func Net_Listen(network, address string) (net.Listener, error) { return nil, nil }

// Http_Error: status code and a body; headers are not modelled further.
func Http_Error(w http.ResponseWriter, msg string, code int) {
	w.WriteHeader(code)
	// the text of an error body is not part of any property: some bytes
	_, _ = w.Write(vsym.MakeBytes(16))
}

// Credentials carried by the request under test (Basic auth header).
var (
	ReqHasBasic bool
	ReqUser     string
	ReqPass     string
)

func Http_Request_BasicAuth(r *http.Request) (string, string, bool) {
	if !ReqHasBasic {
		return "", "", false
	}
	return ReqUser, ReqPass, true
}

// MetricsServed is set when the prometheus handler is reached.
var MetricsServed bool

type metricsHandler struct{}

func (metricsHandler) ServeHTTP(w http.ResponseWriter, r *http.Request) { MetricsServed = true }

func Promhttp_Handler() http.Handler { return metricsHandler{} }

// Std_Handler (go-http-metrics middleware): measuring wrapper = the handler itself.
func Std_Handler(handlerID string, m any, h http.Handler) http.Handler { return h }

// Html_EscapeString: only used for error texts; identity.
func Html_EscapeString(s string) string { return s }

// ---- the outgoing HTTP client (remote asset API): the origin server is an
// arbitrary responder described by the harness.
var ClientResp struct {
	Err           error // transport error
	StatusCode    int
	ContentLength int64
	Body          io.ReadCloser
	Calls         int
	LastURL       string
}

func Http_NewRequest(method, rawurl string, body io.Reader) (*http.Request, error) {
	u, err := url.Parse(rawurl)
	if err != nil {
		return nil, err
	}
	return &http.Request{Method: method, URL: u, Header: http.Header{}}, nil
}

func Http_Client_Do(c *http.Client, req *http.Request) (*http.Response, error) {
	ClientResp.Calls++
	if req.URL != nil {
		ClientResp.LastURL = req.URL.Host
	}
	if ClientResp.Err != nil {
		return nil, ClientResp.Err
	}
	return &http.Response{StatusCode: ClientResp.StatusCode, Status: "status", ContentLength: ClientResp.ContentLength, Body: ClientResp.Body, Request: req}, nil
}
