package vmodel

// go-ldap at its API boundary: the directory server is an arbitrary
// responder described by the harness (connection always possible, the
// configured bind user always accepted, as ldap.New has verified at start).

import (
	"sync"
	"time"

	ldap "github.com/go-ldap/ldap/v3"
)

var (
	// LdapUserFound: the search for the user returns exactly one entry.
	LdapUserFound bool
	// LdapPasswordOK: binding as that entry with the request's password works.
	LdapPasswordOK bool
	// LdapBindDN is the DN of the configured bind user.
	LdapBindDN string
	// LdapQueries counts searches sent to the directory server.
	LdapQueries int
)

func Ldap_DialURL(addr string, opts ...ldap.DialOpt) (*ldap.Conn, error) {
	return new(ldap.Conn), nil
}

func Ldap_Conn_Close(c *ldap.Conn) error { return nil }

func Ldap_Conn_Bind(c *ldap.Conn, username, password string) error {
	if username == LdapBindDN {
		return nil
	}
	if LdapPasswordOK {
		return nil
	}
	return &FmtError{Msg: "ldap: invalid credentials"}
}

func Ldap_Conn_Search(c *ldap.Conn, req *ldap.SearchRequest) (*ldap.SearchResult, error) {
	LdapQueries++
	if !LdapUserFound {
		return &ldap.SearchResult{}, nil
	}
	return &ldap.SearchResult{Entries: []*ldap.Entry{{DN: "uid=user,dc=example"}}}, nil
}

func Ldap_NewSearchRequest(baseDN string, scope, derefAliases, sizeLimit, timeLimit int, typesOnly bool,
	filter string, attributes []string, controls []ldap.Control) *ldap.SearchRequest {
	return &ldap.SearchRequest{BaseDN: baseDN, Filter: filter}
}

// sync.Map as a plain map per instance (the runtime's hash-trie is outside
// the executor's reach); callers synchronise through the scheduler's
// sequentially consistent steps.
var syncMaps = map[*sync.Map]map[any]any{}

func Sync_Map_LoadOrStore(m *sync.Map, key, value any) (any, bool) {
	mm := syncMaps[m]
	if mm == nil {
		mm = map[any]any{}
		syncMaps[m] = mm
	}
	if v, ok := mm[key]; ok {
		return v, true
	}
	mm[key] = value
	return value, false
}

func Sync_Map_Delete(m *sync.Map, key any) {
	if mm := syncMaps[m]; mm != nil {
		delete(mm, key)
	}
}

// Time_After: the timer never fires within a request.
func Time_After(d time.Duration) <-chan time.Time { return make(chan time.Time) }
