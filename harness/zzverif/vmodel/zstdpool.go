package vmodel

// The zstd decoder pool used for compressed uploads (ByteStream.Write, HTTP
// PUT with Content-Encoding: zstd). Contract: the client's compressed stream
// either decodes completely to a logical stream of some length, or is corrupt
// (decoding fails). The real codec is outside every claim.

import (
	"errors"
	"io"
	"sync"

	"github.com/klauspost/compress/zstd"
	syncpool "github.com/mostynb/zstdpool-syncpool"

	"github.com/buchgr/bazel-remote/v2/zzverif/vsym"
)

// ZstdUpload describes the compressed stream under test.
var ZstdUpload struct {
	CompressedSrc string // provenance name of the compressed bytes
	CompressedLen int64  // total length of the compressed stream
	DecodedSrc    string // provenance name of the logical bytes
	DecodedLen    int64
	Corrupt       bool
}

var errZstdCorrupt = errors.New("zstd: invalid input")

var zstdSources = map[*zstd.Decoder]io.Reader{}

func Zstdpool_syncpool_NewDecoderPool(options ...zstd.DOption) *sync.Pool {
	return &sync.Pool{New: func() any { return &syncpool.DecoderWrapper{Decoder: new(zstd.Decoder)} }}
}

func Zstd_Decoder_Reset(d *zstd.Decoder, r io.Reader) error {
	zstdSources[d] = r
	return nil
}

type mZstdReader struct {
	src    io.Reader
	pos    int64
	inited bool
	err    error
	closed bool
}

func Zstdpool_syncpool_DecoderWrapper_IOReadCloser(w *syncpool.DecoderWrapper) io.ReadCloser {
	return &mZstdReader{src: zstdSources[w.Decoder]}
}

func Zstdpool_syncpool_DecoderWrapper_Close(w *syncpool.DecoderWrapper) {}

func (z *mZstdReader) start() {
	z.inited = true
	got := int64(0)
	okSrc := true
	for i := 0; i < 8; i++ {
		buf := vsym.MakeBytes(CopyBuf)
		n, err := z.src.Read(buf)
		if n > 0 {
			s, off, ok := vsym.Prov(buf[:n])
			if !ok || s != ZstdUpload.CompressedSrc || off != got {
				okSrc = false
			}
			got += int64(n)
		}
		if err == io.EOF {
			break
		}
		if err != nil {
			z.err = err
			return
		}
		if i == 7 {
			vsym.Stop("zstd reader: source did not end within the read bound")
		}
	}
	if !okSrc || ZstdUpload.Corrupt || got != ZstdUpload.CompressedLen {
		z.err = errZstdCorrupt
	}
}

func (z *mZstdReader) Read(p []byte) (int, error) {
	if !z.inited {
		z.start()
	}
	if z.err != nil {
		return 0, z.err
	}
	rest := ZstdUpload.DecodedLen - z.pos
	if rest <= 0 {
		return 0, io.EOF
	}
	n := int64(len(p))
	if n > rest {
		n = rest
	}
	vsym.Fill(p, int(n), ZstdUpload.DecodedSrc, z.pos)
	z.pos += n
	return int(n), nil
}

func (z *mZstdReader) Close() error {
	z.closed = true
	return nil
}

// Zstd_Decoder_DecodeAll: one-shot decoding of a client-compressed buffer
// (BatchUpdateBlobs, HTTP PUT of a zstd-wrapped ActionResult).
func Zstd_Decoder_DecodeAll(d *zstd.Decoder, input, dst []byte) ([]byte, error) {
	s, off, ok := vsym.Prov(input)
	if !ok || s != ZstdUpload.CompressedSrc || off != 0 || int64(len(input)) != ZstdUpload.CompressedLen || ZstdUpload.Corrupt {
		return nil, errZstdCorrupt
	}
	out := vsym.MakeBytes(int(ZstdUpload.DecodedLen))
	vsym.Fill(out, int(ZstdUpload.DecodedLen), ZstdUpload.DecodedSrc, 0)
	return out, nil
}
