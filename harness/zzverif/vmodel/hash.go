package vmodel

// sha256 by provenance. Contract assumed: sha256 is collision free, so
// hex(Sum) equals the declared hash of blob B iff the bytes hashed are exactly
// the bytes of B. The bytes of an upload stream S relate to B through three
// integers: L = len(S), N = len(B), D = first index at which S and B differ
// (D >= min(L,N) if they agree on their common prefix).

import (
	"encoding/hex"
	"hash"

	"github.com/buchgr/bazel-remote/v2/zzverif/vsym"
)

// BlobSpec says: stream Stream carries (a corruption of) the blob whose
// sha256 is Hash and whose length is N; S[0:D) == B[0:D).
type BlobSpec struct {
	Stream string
	Hash   string
	N      int64
	D      int64
}

var Blobs []*BlobSpec

// OtherHash is what any content that matches no declared blob hashes to.
const OtherHash = "0f0f0f0f0f0f0f0f0f0f0f0f0f0f0f0f0f0f0f0f0f0f0f0f0f0f0f0f0f0f0f0f"

type MHash struct {
	src     string
	start   int64
	next    int64
	count   int64
	started bool
	bad     bool // not one contiguous range of one source
	Writes  int
	isText  bool   // hashing the bytes of strings (string mode)
	text    string // their concatenation
}

func Sha256_New() hash.Hash { return &MHash{} }

func (h *MHash) Write(p []byte) (int, error) {
	h.Writes++
	if t, ok := vsym.AsString(p); ok && !h.started {
		// bytes of a (possibly symbolic) string: accumulate the text
		h.isText = true
		h.text += t
		return len(p), nil
	}
	if len(p) == 0 {
		return 0, nil
	}
	s, off, ok := vsym.Prov(p)
	n := int64(len(p))
	if !ok {
		h.bad = true
	} else if !h.started {
		h.src, h.start, h.next, h.started = s, off, off+n, true
	} else if s != h.src || off != h.next {
		h.bad = true
	} else {
		h.next += n
	}
	h.count += n
	return len(p), nil
}

// Sum forks on "the hashed bytes are exactly blob B".
func (h *MHash) Sum(b []byte) []byte {
	if h.isText {
		return vsym.DigestOf(h.text)
	}
	digest := OtherHash
	if h.started && !h.bad && h.start == 0 {
		for _, bl := range Blobs {
			if bl.Stream == h.src {
				if h.count == bl.N && bl.D >= bl.N {
					digest = bl.Hash
				}
			}
		}
	}
	if !h.started && h.count == 0 {
		// the empty input
		digest = "e3b0c44298fc1c149afbf4c8996fb92427ae41e4649b934ca495991b7852b855"
	}
	d, _ := hex.DecodeString(digest)
	return append(b, d...)
}

func (h *MHash) Reset()         { *h = MHash{} }
func (h *MHash) Size() int      { return 32 }
func (h *MHash) BlockSize() int { return 64 }

// MStream is an upload / download byte stream of total length L that fails
// with a non-EOF error once FailAt bytes have been delivered (FailAt < 0: never).
type MStream struct {
	Name    string
	L       int64
	FailAt  int64
	Err     error
	Pos     int64
	Short   int  // number of short reads still allowed (reader returns less than it could)
	EOFWith bool // deliver the final bytes together with io.EOF
	Reads   int
	Closed  int
	Head    []byte // byte-precise first bytes of the stream (optional; needs L >= len(Head))
}

func (s *MStream) Read(p []byte) (int, error) {
	s.Reads++
	if s.Reads > 12 {
		vsym.Stop("stream read bound")
	}
	if len(p) == 0 {
		return 0, nil
	}
	if len(s.Head) > 0 && vsym.IsConcrete(s.Pos) && s.Pos < int64(len(s.Head)) && s.FailAt < 0 {
		// deliver the byte-precise head on its own
		n := len(s.Head) - int(s.Pos)
		if vsym.IsConcrete(len(p)) && len(p) < n {
			n = len(p)
		}
		copy(p[:n], s.Head[s.Pos:int(s.Pos)+n])
		s.Pos += int64(n)
		return n, nil
	}
	limit := s.L
	failing := false
	if s.FailAt >= 0 {
		if s.FailAt < s.L {
			limit = s.FailAt
			failing = true
		}
	}
	avail := limit - s.Pos
	if avail <= 0 {
		if failing {
			return 0, s.Err
		}
		return 0, ioEOF()
	}
	n := int64(len(p))
	if n > avail {
		n = avail
	}
	if s.Short > 0 && n > 1 {
		k := vsym.Int64("shortread")
		vsym.Assume(k >= 1)
		vsym.Assume(k <= n)
		if k < n {
			s.Short--
			n = k
		}
	}
	vsym.Fill(p, int(n), s.Name, s.Pos)
	s.Pos += n
	if s.EOFWith && !failing && s.Pos == s.L {
		return int(n), ioEOF()
	}
	return int(n), nil
}

func (s *MStream) Close() error {
	s.Closed++
	return nil
}

// Sha256_Sum256: one-shot digest through the same model.
func Sha256_Sum256(data []byte) [32]byte {
	h := &MHash{}
	_, _ = h.Write(data)
	s := h.Sum(nil)
	var out [32]byte
	copy(out[:], s)
	return out
}
