package vmodel

import (
	"io"

	"github.com/buchgr/bazel-remote/v2/zzverif/vsym"
)

// CopyBuf is the size of the buffer io.Copy uses under the model: so large
// that a reader hands over everything it has in one Read. That io.Copy's
// result does not depend on its buffer size is part of the model's contract.
const CopyBuf = 1 << 40

// Io_Copy models io.Copy: read until EOF, write everything read.
func Io_Copy(dst io.Writer, src io.Reader) (int64, error) { return copyLoop(dst, src) }

func copyLoop(dst io.Writer, src io.Reader) (int64, error) {
	var written int64
	for iter := 0; ; iter++ {
		buf := vsym.MakeBytes(CopyBuf)
		nr, er := src.Read(buf)
		if nr > 0 {
			nw, ew := dst.Write(buf[0:nr])
			if nw < 0 || nr < nw {
				nw = 0
				if ew == nil {
					ew = io.ErrShortWrite
				}
			}
			written += int64(nw)
			if ew != nil {
				return written, ew
			}
			if nr != nw {
				return written, io.ErrShortWrite
			}
		}
		if er != nil {
			if er == io.EOF {
				return written, nil
			}
			return written, er
		}
	}
}

type discard struct{}

func (discard) Write(p []byte) (int, error) { return len(p), nil }

func ioEOF() error { return io.EOF }

// Io_ReadAll: read until EOF into one buffer.
func Io_ReadAll(r io.Reader) ([]byte, error) {
	out := vsym.MakeBytes(CopyBuf)
	total := 0
	for i := 0; i < 6; i++ {
		n, err := r.Read(out[total:])
		total += n
		if err != nil {
			if err == io.EOF {
				return out[:total], nil
			}
			return out[:total], err
		}
	}
	vsym.Stop("io.ReadAll: reader did not reach EOF within the read bound")
	return nil, nil
}
