package vmodel

// File-system model (process-kill semantics: writes apply in program order
// and are visible to later opens; power loss / reordering is outside every
// claim). A file is a byte-precise head region (concrete length, possibly
// symbolic bytes) followed by extents that only carry length and provenance.

import (
	"io"
	"io/fs"
	"os"
	"time"

	"github.com/buchgr/bazel-remote/v2/zzverif/vsym"
)

const HeadLimit = 4096

type Extent struct {
	Off, Len int64
	Src      string // provenance of the bytes ("" = unknown)
	SrcOff   int64
}

type MFile struct {
	Path    string
	ID      string
	Head    []byte
	Size    int64
	Ext     []Extent
	Atime   int64
	Synced  bool
	Closed  int // number of Close calls on handles of this file
	Created int // FS step at which it was created
}

type Handle struct {
	F      *MFile
	Pos    int64
	Closed bool
}

type FSError struct {
	Op, Path string
	Kind     int // 1 not exist, 2 exist, 3 closed, 4 invalid, 5 injected I/O error, 6 dead
}

func (e *FSError) Error() string { return e.Op + " " + e.Path + ": file system error" }

type FSState struct {
	Files     []*MFile
	Handles   map[*os.File]*Handle
	OpenCount int
	Steps     int
	CrashAt   int  // crash before step number CrashAt (0 = never)
	Dead      bool // after the crash point nothing changes any more
	nextID    int
	Removed   []string
	FailWrite int // inject an I/O error at the n-th write (0 = never)
	writes    int
}

var FS = NewFS()

func NewFS() *FSState { return &FSState{Handles: map[*os.File]*Handle{}} }

func ResetFS() { FS = NewFS(); fsDirs = nil }

// Restart: the process is gone, the files stay (process-kill semantics).
func (s *FSState) Restart() {
	s.Dead = false
	s.CrashAt = 0
	s.Handles = map[*os.File]*Handle{}
	s.OpenCount = 0
	s.Steps = 0
}

var fileIDs = []string{"file0", "file1", "file2", "file3", "file4", "file5", "file6", "file7", "file8", "file9"}

func (s *FSState) step(op string) bool {
	s.Steps++
	if s.CrashAt != 0 && s.Steps >= s.CrashAt {
		s.Dead = true
	}
	vsym.Yield()
	return !s.Dead
}

func (s *FSState) Lookup(path string) *MFile {
	for _, f := range s.Files {
		if f.Path == path {
			return f
		}
	}
	return nil
}

// AddFile installs a file (harness set-up; not a step).
func (s *FSState) AddFile(path string, head []byte, size int64) *MFile {
	f := &MFile{Path: path, Head: head, Size: size, ID: fileIDs[s.nextID]}
	s.nextID++
	s.Files = append(s.Files, f)
	return f
}

func (s *FSState) open(f *MFile) *os.File {
	of := new(os.File)
	s.Handles[of] = &Handle{F: f}
	s.OpenCount++
	return of
}

// OpenHandle opens an existing model file (harness set-up).
func (s *FSState) OpenHandle(f *MFile) *os.File { return s.open(f) }

func handle(f *os.File) *Handle {
	if f == nil {
		return nil
	}
	return FS.Handles[f]
}

func Os_Open(name string) (*os.File, error) {
	if !FS.step("open") {
		return nil, &FSError{"open", name, 6}
	}
	f := FS.Lookup(name)
	if f == nil {
		return nil, &FSError{"open", name, 1}
	}
	return FS.open(f), nil
}

func Os_OpenFile(name string, flag int, perm os.FileMode) (*os.File, error) {
	if !FS.step("openfile") {
		return nil, &FSError{"open", name, 6}
	}
	f := FS.Lookup(name)
	if flag&os.O_CREATE != 0 {
		if f != nil {
			if flag&os.O_EXCL != 0 {
				return nil, &FSError{"open", name, 2}
			}
		} else {
			f = &MFile{Path: name, ID: fileIDs[FS.nextID], Created: FS.Steps}
			FS.nextID++
			FS.Files = append(FS.Files, f)
		}
	}
	if f == nil {
		return nil, &FSError{"open", name, 1}
	}
	if flag&os.O_TRUNC != 0 {
		f.Head, f.Size, f.Ext = nil, 0, nil
	}
	return FS.open(f), nil
}

func Os_Remove(name string) error {
	if !FS.step("remove") {
		return &FSError{"remove", name, 6}
	}
	for i, f := range FS.Files {
		if f.Path == name {
			FS.Files = append(FS.Files[:i:i], FS.Files[i+1:]...)
			FS.Removed = append(FS.Removed, name)
			return nil
		}
	}
	for i, d := range fsDirs {
		if d == name {
			fsDirs = append(fsDirs[:i:i], fsDirs[i+1:]...)
			return nil
		}
	}
	return &FSError{"remove", name, 1}
}

func Os_IsNotExist(err error) bool {
	e, ok := err.(*FSError)
	return ok && e.Kind == 1
}

func Os_IsExist(err error) bool {
	e, ok := err.(*FSError)
	return ok && e.Kind == 2
}

func Os_File_Name(f *os.File) string {
	h := handle(f)
	if h == nil {
		return ""
	}
	return h.F.Path
}

type mFileInfo struct {
	name string
	size int64
	at   int64
}

func (i *mFileInfo) Name() string       { return i.name }
func (i *mFileInfo) Size() int64        { return i.size }
func (i *mFileInfo) Mode() fs.FileMode  { return 0664 }
func (i *mFileInfo) ModTime() time.Time { return time.Time{} }
func (i *mFileInfo) IsDir() bool        { return false }
func (i *mFileInfo) Sys() any           { return nil }

func Os_File_Stat(f *os.File) (os.FileInfo, error) {
	h := handle(f)
	if h == nil || h.Closed {
		return nil, &FSError{"stat", "", 3}
	}
	return &mFileInfo{h.F.Path, h.F.Size, h.F.Atime}, nil
}

func Os_File_Seek(f *os.File, off int64, whence int) (int64, error) {
	h := handle(f)
	if h == nil || h.Closed {
		return 0, &FSError{"seek", "", 3}
	}
	np := off
	switch whence {
	case io.SeekCurrent:
		np = h.Pos + off
	case io.SeekEnd:
		np = h.F.Size + off
	}
	if np < 0 {
		return 0, &FSError{"seek", h.F.Path, 4}
	}
	h.Pos = np
	return np, nil
}

// Os_File_Read: reads min(len(p), size-pos) bytes (one read returns all that
// is available: short reads of regular files are outside the claim).
func Os_File_Read(f *os.File, p []byte) (int, error) {
	h := handle(f)
	if h == nil || h.Closed {
		return 0, &FSError{"read", "", 3}
	}
	if FS.Dead {
		return 0, &FSError{"read", h.F.Path, 6}
	}
	if len(p) == 0 {
		return 0, nil
	}
	avail := h.F.Size - h.Pos
	if avail <= 0 {
		return 0, io.EOF
	}
	n := len(p)
	if int64(n) > avail {
		n = int(avail)
	}
	if vsym.IsConcrete(h.Pos) && vsym.IsConcrete(n) && h.Pos+int64(n) <= int64(len(h.F.Head)) {
		copy(p[:n], h.F.Head[h.Pos:h.Pos+int64(n)])
	} else {
		vsym.Fill(p, n, h.F.ID, h.Pos)
	}
	h.Pos += int64(n)
	return n, nil
}

// Os_File_ReadAt: pread - like Read at the given offset, the file position is
// not moved; fewer than len(p) bytes come with io.EOF.
func Os_File_ReadAt(f *os.File, p []byte, off int64) (int, error) {
	h := handle(f)
	if h == nil || h.Closed {
		return 0, &FSError{"read", "", 3}
	}
	if off < 0 {
		return 0, &FSError{"readat", h.F.Path, 4}
	}
	save := h.Pos
	h.Pos = off
	n, err := Os_File_Read(f, p)
	h.Pos = save
	if err == nil && n < len(p) {
		err = io.EOF
	}
	return n, err
}

// Os_File_WriteAt: pwrite - the file position is not moved.
func Os_File_WriteAt(f *os.File, p []byte, off int64) (int, error) {
	h := handle(f)
	if h == nil || h.Closed {
		return 0, &FSError{"write", "", 3}
	}
	if off < 0 {
		return 0, &FSError{"writeat", h.F.Path, 4}
	}
	save := h.Pos
	h.Pos = off
	n, err := Os_File_Write(f, p)
	h.Pos = save
	return n, err
}

func Os_File_Write(f *os.File, p []byte) (int, error) {
	h := handle(f)
	if h == nil || h.Closed {
		return 0, &FSError{"write", "", 3}
	}
	if !FS.step("write") {
		if FS.CrashAt != 0 && FS.Steps == FS.CrashAt && len(p) > 0 {
			// the process is killed during this write: an arbitrary prefix of
			// the data has reached the file
			var k int64
			if vsym.IsConcrete(len(p)) && len(p) <= 64 {
				// small byte-precise writes (header fields, chunk table): every
				// prefix length separately, so that the bytes stay precise
				k = int64(vsym.Choose("crash-partial-write", len(p)+1))
			} else {
				k = vsym.Int64("crash-partial-write")
				vsym.Assume(k >= 0)
				vsym.Assume(k <= int64(len(p)))
			}
			FS.Dead = false
			FS.CrashAt = 0
			_, _ = Os_File_Write(f, p[:k])
			FS.Dead = true
			FS.CrashAt = FS.Steps
		}
		return 0, &FSError{"write", h.F.Path, 6}
	}
	FS.writes++
	if FS.FailWrite != 0 && FS.writes == FS.FailWrite {
		return 0, &FSError{"write", h.F.Path, 5}
	}
	n := len(p)
	mf := h.F
	if vsym.IsConcrete(h.Pos) && vsym.IsConcrete(n) && h.Pos+int64(n) <= HeadLimit && h.Pos <= int64(len(mf.Head)) && len(mf.Ext) == 0 || (vsym.IsConcrete(h.Pos) && vsym.IsConcrete(n) && h.Pos+int64(n) <= int64(len(mf.Head))) {
		// byte-precise write into the head region
		for int64(len(mf.Head)) < h.Pos+int64(n) {
			mf.Head = append(mf.Head, 0)
		}
		copy(mf.Head[h.Pos:], p[:n])
	} else {
		src, off, ok := vsym.Prov(p)
		if !ok {
			src = ""
		}
		mf.Ext = append(mf.Ext, Extent{Off: h.Pos, Len: int64(n), Src: src, SrcOff: off})
	}
	h.Pos += int64(n)
	mf.Size = vsym.Ite64(h.Pos > mf.Size, h.Pos, mf.Size)
	return n, nil
}

func Os_File_Sync(f *os.File) error {
	h := handle(f)
	if h == nil || h.Closed {
		return &FSError{"sync", "", 3}
	}
	if !FS.step("sync") {
		return &FSError{"sync", h.F.Path, 6}
	}
	h.F.Synced = true
	return nil
}

func Os_File_Close(f *os.File) error {
	h := handle(f)
	if h == nil {
		return &FSError{"close", "", 4}
	}
	if h.Closed {
		return &FSError{"close", h.F.Path, 3}
	}
	h.Closed = true
	h.F.Closed++
	FS.OpenCount--
	FS.step("close")
	return nil
}

// Os_File_ReadFrom lets io.Copy(file, r) use the generic loop.
func Os_File_ReadFrom(f *os.File, r io.Reader) (int64, error) { return copyLoop(f, r) }

func Os_File_WriteTo(f *os.File, w io.Writer) (int64, error) { return copyLoop(w, f) }

// ---------------------------------------------------------------- directories

// Dirs lists the directories that exist (besides those implied by files).
var fsDirs []string

func (s *FSState) AddDir(path string) { fsDirs = append(fsDirs, path) }

func parentOf(p string) (string, string) {
	for i := len(p) - 1; i >= 0; i-- {
		if p[i] == '/' {
			return p[:i], p[i+1:]
		}
	}
	return "", p
}

type mDirEntry struct {
	name  string
	isDir bool
	f     *MFile
}

func (e *mDirEntry) Name() string { return e.name }
func (e *mDirEntry) IsDir() bool  { return e.isDir }
func (e *mDirEntry) Type() fs.FileMode {
	if e.isDir {
		return fs.ModeDir
	}
	return 0
}
func (e *mDirEntry) Info() (fs.FileInfo, error) {
	if e.f == nil {
		return &mFileInfo{name: e.name}, nil
	}
	return &mFileInfo{e.f.Path, e.f.Size, e.f.Atime}, nil
}

func dirExists(path string) bool {
	for _, d := range fsDirs {
		if d == path {
			return true
		}
	}
	return false
}

func Os_ReadDir(name string) ([]os.DirEntry, error) {
	if !FS.step("readdir") {
		return nil, &FSError{"readdir", name, 6}
	}
	if !dirExists(name) {
		return nil, &FSError{"readdir", name, 1}
	}
	var out []os.DirEntry
	for _, d := range fsDirs {
		p, base := parentOf(d)
		if p == name {
			out = append(out, &mDirEntry{name: base, isDir: true})
		}
	}
	for _, f := range FS.Files {
		p, base := parentOf(f.Path)
		if p == name {
			out = append(out, &mDirEntry{name: base, f: f})
		}
	}
	return out, nil
}

func Os_Stat(name string) (os.FileInfo, error) {
	if dirExists(name) {
		return &mFileInfo{name: name}, nil
	}
	if f := FS.Lookup(name); f != nil {
		return &mFileInfo{f.Path, f.Size, f.Atime}, nil
	}
	return nil, &FSError{"stat", name, 1}
}

func Os_MkdirAll(path string, perm os.FileMode) error {
	if !dirExists(path) {
		fsDirs = append(fsDirs, path)
	}
	return nil
}

func Os_Rename(oldpath, newpath string) error {
	if !FS.step("rename") {
		return &FSError{"rename", oldpath, 6}
	}
	f := FS.Lookup(oldpath)
	if f == nil {
		return &FSError{"rename", oldpath, 1}
	}
	if g := FS.Lookup(newpath); g != nil {
		_ = Os_Remove(newpath)
	}
	f.Path = newpath
	return nil
}

func Os_RemoveAll(path string) error {
	if !FS.step("removeall") {
		return &FSError{"removeall", path, 6}
	}
	var keep []*MFile
	for _, f := range FS.Files {
		if f.Path == path || (len(f.Path) > len(path) && f.Path[:len(path)+1] == path+"/") {
			continue
		}
		keep = append(keep, f)
	}
	FS.Files = keep
	var kd []string
	for _, d := range fsDirs {
		if d == path || (len(d) > len(path) && d[:len(path)+1] == path+"/") {
			continue
		}
		kd = append(kd, d)
	}
	fsDirs = kd
	return nil
}

func Filepath_EvalSymlinks(path string) (string, error) { return path, nil }

// Atime_Get (github.com/djherbis/atime): the access time recorded in the model.
func Atime_Get(fi os.FileInfo) time.Time {
	if m, ok := fi.(*mFileInfo); ok {
		return time.Unix(m.at, 0)
	}
	return time.Time{}
}

func Atime_Stat(name string) (time.Time, error) {
	if f := FS.Lookup(name); f != nil {
		return time.Unix(f.Atime, 0), nil
	}
	return time.Time{}, &FSError{"stat", name, 1}
}
