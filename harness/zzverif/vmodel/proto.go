package vmodel

// protobuf (de)serialisation by identity: Marshal(m) yields bytes whose
// content source is "the serialisation of (a snapshot of) m"; Unmarshal of
// such bytes yields a copy of m; Unmarshal of anything else fails or yields
// whatever the harness registered for that source. Field-level wire encoding
// is outside every claim.

import (
	"errors"

	"google.golang.org/protobuf/proto"

	pb "github.com/buchgr/bazel-remote/v2/genproto/build/bazel/remote/execution/v2"
	"github.com/buchgr/bazel-remote/v2/zzverif/vsym"
)

type ProtoEntry struct {
	Src string
	Msg proto.Message // nil: bytes that do not parse
	Len int64
	JSON bool // the bytes are the protojson text of Msg, not its wire encoding
}

var Protos []*ProtoEntry

var ErrProto = errors.New("proto: cannot parse invalid wire-format data")

var serNames = []string{"ser0", "ser1", "ser2", "ser3", "ser4", "ser5", "ser6", "ser7", "ser8", "ser9"}

// RegisterProto: bytes [0,n) of content source src are the serialisation of m.
func RegisterProto(src string, m proto.Message, n int64) {
	Protos = append(Protos, &ProtoEntry{Src: src, Msg: m, Len: n})
}

func lookupProto(src string) *ProtoEntry {
	for _, e := range Protos {
		if e.Src == src {
			return e
		}
	}
	return nil
}

func Proto_Unmarshal(b []byte, m proto.Message) error {
	if len(b) == 0 {
		// the empty message
		return nil
	}
	return unmarshalAs(b, m, false)
}

// RegisterJSON: bytes [0,n) of content source src are the protojson text of m.
func RegisterJSON(src string, m proto.Message, n int64) {
	Protos = append(Protos, &ProtoEntry{Src: src, Msg: m, Len: n, JSON: true})
}

// protojson: the same identity model; wire bytes are not JSON text and the
// other way round. The empty input is not a JSON value.
func Protojson_Unmarshal(b []byte, m proto.Message) error {
	if len(b) == 0 {
		return ErrProto
	}
	return unmarshalAs(b, m, true)
}

func Protojson_Marshal(m proto.Message) ([]byte, error) {
	b, err := Proto_Marshal(m)
	if err == nil {
		Protos[len(Protos)-1].JSON = true
		Marshalled[len(Marshalled)-1].JSON = true
	}
	return b, err
}

func unmarshalAs(b []byte, m proto.Message, json bool) error {
	src, off, ok := vsym.Prov(b)
	if !ok || off != 0 {
		return ErrProto
	}
	e := lookupProto(src)
	if e == nil || e.Msg == nil || e.JSON != json {
		return ErrProto
	}
	if int64(len(b)) != e.Len {
		return ErrProto
	}
	switch dst := m.(type) {
	case *pb.ActionResult:
		s, ok := e.Msg.(*pb.ActionResult)
		if !ok {
			return ErrProto
		}
		CopyActionResult(dst, s)
	case *pb.Tree:
		s, ok := e.Msg.(*pb.Tree)
		if !ok {
			return ErrProto
		}
		dst.Root = s.Root
		dst.Children = s.Children
	case *pb.Directory:
		s, ok := e.Msg.(*pb.Directory)
		if !ok {
			return ErrProto
		}
		dst.Files = s.Files
		dst.Directories = s.Directories
		dst.Symlinks = s.Symlinks
		dst.NodeProperties = s.NodeProperties
	default:
		return ErrProto
	}
	return nil
}

// CopyActionResult copies the fields, duplicating the parts handlers modify.
func CopyActionResult(dst, s *pb.ActionResult) {
	dst.OutputFiles = nil
	for _, f := range s.OutputFiles {
		if f == nil {
			dst.OutputFiles = append(dst.OutputFiles, nil)
			continue
		}
		g := &pb.OutputFile{Path: f.Path, Digest: f.Digest, IsExecutable: f.IsExecutable, Contents: f.Contents, NodeProperties: f.NodeProperties}
		dst.OutputFiles = append(dst.OutputFiles, g)
	}
	dst.OutputFileSymlinks = s.OutputFileSymlinks
	dst.OutputSymlinks = s.OutputSymlinks
	dst.OutputDirectories = s.OutputDirectories
	dst.OutputDirectorySymlinks = s.OutputDirectorySymlinks
	dst.ExitCode = s.ExitCode
	dst.StdoutRaw = s.StdoutRaw
	dst.StdoutDigest = s.StdoutDigest
	dst.StderrRaw = s.StderrRaw
	dst.StderrDigest = s.StderrDigest
	if s.ExecutionMetadata != nil {
		em := *s.ExecutionMetadata
		dst.ExecutionMetadata = &em
	} else {
		dst.ExecutionMetadata = nil
	}
}

// Marshalled records every proto.Marshal call.
type MarshalRec struct {
	Src  string
	Msg  proto.Message
	Snap proto.Message // snapshot at the time of the call (ActionResult only)
	Len  int64
	JSON bool
}

var Marshalled []*MarshalRec

func Proto_Marshal(m proto.Message) ([]byte, error) {
	i := len(Marshalled)
	if i >= len(serNames) {
		vsym.Stop("too many proto.Marshal calls")
	}
	n := vsym.Int64("serlen")
	vsym.Assume(n >= 0)
	vsym.Assume(n < 1<<30)
	rec := &MarshalRec{Src: serNames[i], Msg: m, Len: n}
	if ar, ok := m.(*pb.ActionResult); ok {
		snap := &pb.ActionResult{}
		CopyActionResult(snap, ar)
		rec.Snap = snap
		// a message with any field set has a non-empty encoding
		if ar.ExecutionMetadata != nil && ar.ExecutionMetadata.Worker != "" {
			vsym.Assume(n >= 1)
		}
	}
	Marshalled = append(Marshalled, rec)
	RegisterProto(rec.Src, m, n)
	out := vsym.MakeBytes(int(n))
	vsym.Fill(out, int(n), rec.Src, 0)
	return out, nil
}
