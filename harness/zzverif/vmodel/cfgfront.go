package vmodel

// The two configuration front ends at their library boundary: yaml.v3 parses
// a document into the struct by identity (the harness says which keys the
// document holds), urfave/cli hands out the flag values the harness gave.
// Both libraries themselves are outside every claim.

import (
	"time"

	"github.com/urfave/cli/v2"
)

// YamlFill writes the keys of the document under test into the destination
// struct (fields of absent keys are left untouched, as yaml.v3 does).
var YamlFill func(out interface{}) error

func Yaml_v3_Unmarshal(in []byte, out interface{}) error {
	if YamlFill == nil {
		return nil
	}
	return YamlFill(out)
}

// Flags: the value of every flag as urfave/cli would report it (explicitly
// given, from the environment, or the flag's default).
var (
	FlagStr  = map[string]string{}
	FlagInt  = map[string]int{}
	FlagI64  = map[string]int64{}
	FlagBool = map[string]bool{}
	FlagDur  = map[string]time.Duration{}
)

func Cli_Context_String(c *cli.Context, name string) string           { return FlagStr[name] }
func Cli_Context_Int(c *cli.Context, name string) int                 { return FlagInt[name] }
func Cli_Context_Int64(c *cli.Context, name string) int64             { return FlagI64[name] }
func Cli_Context_Bool(c *cli.Context, name string) bool               { return FlagBool[name] }
func Cli_Context_Duration(c *cli.Context, name string) time.Duration { return FlagDur[name] }
