package vmodel

import (
	"errors"

	"github.com/buchgr/bazel-remote/v2/zzverif/vsym"
)

var errHostPort = errors.New("address: missing port in address or too many colons")

// Net_SplitHostPort: "host:port" with a colon-free, bracket-free host, or
// "[host]:port"; everything else is an error (net.SplitHostPort's contract;
// zone identifiers are not modelled).
func Net_SplitHostPort(hostport string) (string, string, error) {
	if vsym.Matches(hostport, "^[^:\\[\\]]*:[^:\\[\\]]*$") {
		parts := splitOnce(hostport, ":")
		return parts[0], parts[1], nil
	}
	if vsym.Matches(hostport, "^\\[[^\\[\\]]*\\]:[^:\\[\\]]*$") {
		parts := splitOnce(hostport[1:], "]:")
		return parts[0], parts[1], nil
	}
	return "", "", errHostPort
}

func splitOnce(s, sep string) []string {
	parts := stringsSplitN(s, sep, 2)
	return parts
}
