// Package vmodel holds environment models written in Go. Under the symbolic
// executor a call to e.g. time.Now is redirected to vmodel.Time_Now (the name
// is derived from the callee: <Pkg>_<Func> or <Pkg>_<Type>_<Method>). The
// package is never linked into a native build of bazel-remote.
package vmodel

import "time"

// Time_Now: the clock is outside every claim; a fixed instant.
func Time_Now() time.Time { return time.Time{} }

func Time_Since(t time.Time) time.Duration { return 0 }
