package vmodel

// PasswordMatches is what auth.CheckSecret answers: whether a password
// matches a stored secret is an arbitrary predicate chosen by the harness
// (htpasswd hashing is outside every claim).
var PasswordMatches bool

func Go_http_auth_CheckSecret(password, secret string) bool { return PasswordMatches }
