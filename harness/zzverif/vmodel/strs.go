package vmodel

import "strings"

func stringsSplitN(s, sep string, n int) []string { return strings.SplitN(s, sep, n) }
