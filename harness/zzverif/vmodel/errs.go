package vmodel

import (
	"fmt"
	"strings"
)

// FmtError is what fmt.Errorf returns under the model: the text is opaque
// (possibly containing symbolic numbers), %w wrapping is kept.
type FmtError struct {
	Msg     string
	Wrapped error
}

func (e *FmtError) Error() string { return e.Msg }
func (e *FmtError) Unwrap() error { return e.Wrapped }

func Fmt_Errorf(format string, a ...interface{}) error {
	msg := fmt.Sprintf(format, a...)
	var w error
	if strings.Contains(format, "%w") {
		for _, x := range a {
			if e, ok := x.(error); ok {
				w = e
				break
			}
		}
	}
	return &FmtError{msg, w}
}

// Errors_Is walks the Unwrap chain comparing with ==.
func Errors_Is(err, target error) bool {
	for i := 0; err != nil && i < 32; i++ {
		if err == target {
			return true
		}
		u, ok := err.(interface{ Unwrap() error })
		if !ok {
			return false
		}
		err = u.Unwrap()
	}
	return false
}
