package vmodel

// encoding/json at its API boundary: an Encoder records the value it is asked
// to encode and writes an opaque non-empty document.

import (
	"encoding/json"
	"io"
)

var jsonEncoders = map[*json.Encoder]io.Writer{}

// JSONEncoded lists every value passed to (*json.Encoder).Encode.
var JSONEncoded []any

func Json_NewEncoder(w io.Writer) *json.Encoder {
	e := new(json.Encoder)
	jsonEncoders[e] = w
	return e
}

func Json_Encoder_SetIndent(e *json.Encoder, prefix, indent string) {}

func Json_Encoder_Encode(e *json.Encoder, v any) error {
	JSONEncoded = append(JSONEncoded, v)
	_, err := jsonEncoders[e].Write([]byte("{}"))
	return err
}
