package validate

// validate.ActionResult accepts a message iff it satisfies the independent
// well-formedness predicate below, for all strings and sizes (C11, C14).

import (
	"github.com/buchgr/bazel-remote/v2/zzverif/vsym"

	pb "github.com/buchgr/bazel-remote/v2/genproto/build/bazel/remote/execution/v2"
)

// specification: a digest is well formed iff its size is non-negative and its
// hash is 64 lower-case hexadecimal characters.
const vHexSpec = "^[0-9a-f]{64}$"

func vDigest(tag string) (*pb.Digest, bool) {
	switch vsym.Choose(tag+"-digest", 2) {
	case 0:
		return nil, false
	}
	d := &pb.Digest{Hash: vsym.Str(tag + "-hash"), SizeBytes: vsym.Int64(tag + "-size")}
	ok := vsym.And(d.SizeBytes >= 0, vsym.Matches(d.Hash, vHexSpec))
	return d, ok
}

func vAbs(p string) bool { return vsym.HasPrefix(p, "/") }

func vSymlinks(tag string) ([]*pb.OutputSymlink, bool) {
	switch vsym.Choose(tag, 3) {
	case 0:
		return nil, true
	case 1:
		return []*pb.OutputSymlink{nil}, false
	}
	s := &pb.OutputSymlink{Path: vsym.Str(tag + "-path"), Target: vsym.Str(tag + "-target")}
	ok := vsym.And(vsym.And(s.Path != "", s.Target != ""), vsym.Not(vAbs(s.Path)))
	return []*pb.OutputSymlink{s}, ok
}

func VerifValidateFilesDirs() {
	ar := &pb.ActionResult{}
	valid := vsym.Bool("true")
	vsym.Assume(valid)
	switch vsym.Choose("files", 3) {
	case 1:
		ar.OutputFiles = []*pb.OutputFile{nil}
		valid = false
	case 2:
		f := &pb.OutputFile{Path: vsym.Str("file-path")}
		d, dok := vDigest("file")
		f.Digest = d
		ok := vsym.And(f.Path != "", vsym.Not(vAbs(f.Path)))
		if d == nil {
			ok = false
		} else {
			ok = vsym.And(ok, dok)
		}
		valid = vsym.And(valid, ok)
		ar.OutputFiles = []*pb.OutputFile{f}
	}
	switch vsym.Choose("dirs", 3) {
	case 1:
		ar.OutputDirectories = []*pb.OutputDirectory{nil}
		valid = false
	case 2:
		od := &pb.OutputDirectory{Path: vsym.Str("dir-path")}
		d, dok := vDigest("tree")
		od.TreeDigest = d
		ok := vsym.Not(vAbs(od.Path))
		if d == nil {
			ok = false
		} else {
			ok = vsym.And(ok, dok)
		}
		valid = vsym.And(valid, ok)
		ar.OutputDirectories = []*pb.OutputDirectory{od}
	}
	so, sok := vDigest("stdout")
	ar.StdoutDigest = so
	if so != nil {
		valid = vsym.And(valid, sok)
	}
	se, seok := vDigest("stderr")
	ar.StderrDigest = se
	if se != nil {
		valid = vsym.And(valid, seok)
	}

	err := ActionResult(ar)

	if err == nil {
		vsym.Reach("validate-accepts")
	} else {
		vsym.Reach("validate-rejects")
	}
	vsym.Assert((err == nil) == valid, "validate/C11-accepted-iff-well-formed")
}

func VerifValidateSymlinks() {
	ar := &pb.ActionResult{}
	a, aok := vSymlinks("filesymlinks")
	b, bok := vSymlinks("symlinks")
	c, cok := vSymlinks("dirsymlinks")
	ar.OutputFileSymlinks, ar.OutputSymlinks, ar.OutputDirectorySymlinks = a, b, c
	valid := vsym.And(vsym.And(aok, bok), cok)
	err := ActionResult(ar)
	if err == nil {
		vsym.Reach("validate-accepts")
	} else {
		vsym.Reach("validate-rejects")
	}
	vsym.Assert((err == nil) == valid, "validate/C11-accepted-iff-well-formed")
}

func VerifValidateNil() {
	vsym.Reach("validate-nil")
	vsym.Assert(ActionResult(nil) != nil, "validate/C11-nil-result-rejected")
}
