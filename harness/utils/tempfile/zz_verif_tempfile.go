package tempfile

// The temp-file creator's contract, on which "one file per entry, named for
// its key" (C04) rests: Create returns a NEW file (O_EXCL) and the random
// string that is part of exactly that file's name - also when the first
// candidates collide with existing files.

import (
	"github.com/buchgr/bazel-remote/v2/zzverif/vmodel"
	"github.com/buchgr/bazel-remote/v2/zzverif/vsym"
)

func VerifTempfileCreate() {
	vmodel.ResetFS()
	vmodel.FS.AddDir("/cache")
	vmodel.FS.AddDir("/cache/cas.v2")
	vmodel.FS.AddDir("/cache/cas.v2/aa")
	seed := []uint32{0, 1, 12345, 4000000000}[vsym.Choose("generator-state", 4)]
	c := &Creator{idum: seed}
	legacy := vsym.Choose("legacy", 2) == 1
	suffix := ""
	if legacy {
		suffix = ".v1"
	}
	base := "/cache/cas.v2/aa/aaaa"
	// the first k candidate names are taken already
	k := vsym.Choose("collisions", 4)
	clone := &Creator{idum: seed}
	for i := 0; i < k; i++ {
		vmodel.FS.AddFile(base+"-"+clone.ranqd1()+suffix, nil, 1)
	}
	want := clone.ranqd1()

	f, random, err := c.Create(base, legacy)

	vsym.Reach("tempfile-returned")
	vsym.Assert(err == nil && f != nil, "tempfile/C04-create-succeeds-after-collisions")
	if err != nil || f == nil {
		return
	}
	vsym.Assert(f.Name() == base+"-"+random+suffix, "tempfile/C04-returned-random-string-names-the-returned-file")
	vsym.Assert(random == want, "tempfile/C04-first-free-candidate-is-used")
	vsym.Assert(len(vmodel.FS.Files) == k+1, "tempfile/C04-exactly-one-new-file")
	mf := vmodel.FS.Lookup(base + "-" + random + suffix)
	vsym.Assert(mf != nil && mf.Size == 0, "tempfile/C04-the-file-is-new-and-empty")
	_ = f.Close()
}
