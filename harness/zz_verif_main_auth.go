package main

// H17 (HTTP part): the handler wiring of startHttpServer for every
// combination of authentication options, driven with every credential state
// (C13).

import (
	"context"
	"crypto/tls"
	"crypto/x509"
	"io"
	"net/http"
	"net/url"
	"time"

	"golang.org/x/sync/semaphore"

	"github.com/buchgr/bazel-remote/v2/cache"
	"github.com/buchgr/bazel-remote/v2/config"
	"github.com/buchgr/bazel-remote/v2/utils/idle"
	"github.com/buchgr/bazel-remote/v2/zzverif/vmodel"
	"github.com/buchgr/bazel-remote/v2/zzverif/vsym"

	pb "github.com/buchgr/bazel-remote/v2/genproto/build/bazel/remote/execution/v2"
)

// vCache records which cache operations a request reached.
type vCache struct {
	stats, reads, writes int
}

func (c *vCache) Get(ctx context.Context, kind cache.EntryKind, hash string, size int64, offset int64) (io.ReadCloser, int64, error) {
	c.reads++
	return nil, -1, nil
}
func (c *vCache) GetValidatedActionResult(ctx context.Context, hash string) (*pb.ActionResult, []byte, error) {
	c.reads++
	return nil, nil, nil
}
func (c *vCache) GetZstd(ctx context.Context, hash string, size int64, offset int64) (io.ReadCloser, int64, error) {
	c.reads++
	return nil, -1, nil
}
func (c *vCache) Put(ctx context.Context, kind cache.EntryKind, hash string, size int64, r io.Reader) error {
	c.writes++
	return nil
}
func (c *vCache) Contains(ctx context.Context, kind cache.EntryKind, hash string, size int64) (bool, int64) {
	c.reads++
	return false, -1
}
func (c *vCache) FindMissingCasBlobs(ctx context.Context, blobs []*pb.Digest) ([]*pb.Digest, error) {
	c.reads++
	return nil, nil
}
func (c *vCache) MaxSize() int64 { return 1 << 30 }
func (c *vCache) Stats() (int64, int64, int, int64) {
	c.stats++
	return 0, 0, 0, 0
}
func (c *vCache) RegisterMetrics() {}

type vRW struct {
	hdr    http.Header
	status int
	bytes  int
}

func (w *vRW) Header() http.Header         { return w.hdr }
func (w *vRW) Write(b []byte) (int, error) { w.bytes += len(b); return len(b), nil }
func (w *vRW) WriteHeader(code int) {
	if w.status == 0 {
		w.status = code
	}
}

const vHash = "aaaaaaaaaaaaaaaaaaaaaaaaaaaaaaaaaaaaaaaaaaaaaaaaaaaaaaaaaaaaaaaa"

func VerifHTTPAuthWiring() {
	c := &config.Config{HTTPAddress: "localhost:8080", MaxBlobSize: 1 << 40}
	htpasswd := vsym.Choose("htpasswd", 2) == 1
	mtls := vsym.Choose("mtls", 2) == 1
	c.AllowUnauthenticatedReads = vsym.Choose("allowUnauthenticatedReads", 2) == 1
	c.EnableEndpointMetrics = vsym.Choose("endpointMetrics", 2) == 1
	if vsym.Choose("idleTimeout", 2) == 1 {
		c.IdleTimeout = time.Minute
	}
	// config validation forbids allow_unauthenticated_reads without authentication
	if c.AllowUnauthenticatedReads && !htpasswd && !mtls {
		vsym.Stop("rejected by validateConfig")
	}
	userKnown := vsym.Bool("user-known")
	var secrets func(user, realm string) string
	if htpasswd {
		c.HtpasswdFile = "/etc/htpasswd"
		secrets = func(user, realm string) string {
			if userKnown {
				return "stored-secret"
			}
			return ""
		}
	}
	if mtls {
		c.TLSCaFile = "/etc/ca.pem"
	}
	vsym.Fact("htpasswd", htpasswd)
	vsym.Fact("mtls", mtls)
	vsym.Fact("allowUnauthenticatedReads", c.AllowUnauthenticatedReads)
	vsym.Fact("endpointMetrics", c.EnableEndpointMetrics)
	stub := &vCache{}
	var srv *http.Server
	timer := idle.NewTimer(time.Minute, make(chan struct{}, 1))
	sem := semaphore.NewWeighted(1)
	_ = sem.Acquire(context.Background(), 1) // "shutting down": do not start serving
	err := startHttpServer(c, &srv, secrets, timer, sem, stub)
	vsym.Assert(err == nil, "wiring/startHttpServer-returns")
	stub.stats = 0

	// ---- one request with an arbitrary credential state
	vmodel.ReqHasBasic = vsym.Choose("basicHeader", 2) == 1
	vmodel.ReqUser, vmodel.ReqPass = "user", "pass"
	vmodel.PasswordMatches = vsym.Bool("password-matches")
	basicValid := vsym.And(vmodel.ReqHasBasic, vsym.And(userKnown, vmodel.PasswordMatches))
	var ts *tls.ConnectionState
	certValid := false
	switch vsym.Choose("tls", 3) {
	case 1:
		ts = &tls.ConnectionState{}
	case 2:
		ts = &tls.ConnectionState{VerifiedChains: [][]*x509.Certificate{{&x509.Certificate{}}}}
		certValid = true
	}
	// authed: satisfies at least one configured mechanism (needed to be served);
	// authedAll: satisfies every configured mechanism (must not be refused)
	authed, authedAll := false, false
	if htpasswd && !mtls {
		authed, authedAll = basicValid, basicValid
	} else if mtls && !htpasswd {
		authed, authedAll = certValid, certValid
	} else if mtls && htpasswd {
		authed = vsym.Or(basicValid, certValid)
		authedAll = vsym.And(basicValid, certValid)
	}
	noAuth := !htpasswd && !mtls
	route := "/"
	method := "GET"
	switch vsym.Choose("request", 5) {
	case 0:
		route = "/status"
	case 1:
		route = "/metrics"
	case 2:
		method = "GET"
	case 3:
		method = "HEAD"
	case 4:
		method = "PUT"
	}
	vsym.Fact("route", route)
	vsym.Fact("method", method)
	h := vmodel.MuxRoutes[route]
	vsym.Assert(h != nil, "wiring/route-registered")
	if h == nil {
		return
	}
	path := route
	if route == "/" {
		path = "/cas/" + vHash
	}
	r := &http.Request{Method: method, URL: &url.URL{Path: path}, Header: http.Header{}, Body: http.NoBody, ContentLength: 3, TLS: ts, RemoteAddr: "1.2.3.4:5"}
	w := &vRW{hdr: http.Header{}}
	h.ServeHTTP(w, r)

	readsOpen := vsym.Or(noAuth, c.AllowUnauthenticatedReads)
	switch {
	case route == "/status":
		if stub.stats > 0 {
			vsym.Reach("status-served")
			vsym.Assert(vsym.Or(readsOpen, authed), "wiring/C13-status-served-without-credentials")
		} else {
			vsym.Reach("status-refused")
			vsym.Assert(vsym.Not(vsym.Or(noAuth, authedAll)), "wiring/C13-authorised-status-request-refused")
		}
	case route == "/metrics":
		if vmodel.MetricsServed {
			vsym.Reach("metrics-served")
			vsym.Assert(vsym.Or(readsOpen, authed), "wiring/C13-metrics-served-without-credentials")
		} else if c.EnableEndpointMetrics {
			vsym.Reach("metrics-refused")
			vsym.Assert(vsym.Not(vsym.Or(noAuth, authedAll)), "wiring/C13-authorised-metrics-request-refused")
		}
	case method == "PUT":
		if stub.writes > 0 {
			vsym.Reach("put-served")
			vsym.Assert(vsym.Or(noAuth, authed), "wiring/C13-write-served-without-credentials")
		} else {
			vsym.Reach("put-refused")
			vsym.Assert(vsym.Not(vsym.Or(noAuth, authedAll)), "wiring/C13-authorised-write-refused")
		}
	default:
		if stub.reads > 0 {
			vsym.Reach("read-served")
			vsym.Assert(vsym.Or(readsOpen, authed), "wiring/C13-read-served-without-credentials")
		} else {
			vsym.Reach("read-refused")
			vsym.Assert(vsym.Not(vsym.Or(noAuth, authedAll)), "wiring/C13-authorised-read-refused")
		}
	}
}
