package disk

// H8: kill the process at any file-system step of an upload, restart on the
// same directory (real loader), read the key back. Serves C08.

import (
	"context"
	"io"

	"github.com/buchgr/bazel-remote/v2/cache"
	"github.com/buchgr/bazel-remote/v2/cache/disk/casblob"
	"github.com/buchgr/bazel-remote/v2/cache/disk/zstdimpl"
	"github.com/buchgr/bazel-remote/v2/zzverif/vmodel"
	"github.com/buchgr/bazel-remote/v2/zzverif/vsym"
)

func vCrashDirs() {
	for _, d := range []string{vDir, vDir + "/ac.v2", vDir + "/cas.v2", vDir + "/raw.v2",
		vDir + "/ac.v2/aa", vDir + "/cas.v2/aa", vDir + "/raw.v2/aa"} {
		vmodel.FS.AddDir(d)
	}
}

// vCrashPut: a well-formed upload of blob A (declared size = stream length =
// blob length, bytes equal) is killed at the k-th file-system step (or not at
// all); the server restarts; the key is read with the size known or unknown.
func vCrashPut(kind cache.EntryKind, mode casblob.CompressionType, maxSteps int, fixedSize int64, bad bool) {
	d := vNewDisk(0, mode, nil, false)
	c := d.c
	vCrashDirs()
	vsym.Assume(c.maxBlobSize >= 2<<20)
	var u *vUpload
	if fixedSize > 0 {
		// the size appears in the file name the loader parses: concrete here
		u = &vUpload{size: fixedSize}
		u.st = &vmodel.MStream{Name: "upload", L: fixedSize, FailAt: -1}
		u.bl = &vmodel.BlobSpec{Stream: "upload", Hash: vHashA, N: fixedSize, D: fixedSize}
		vmodel.Blobs = []*vmodel.BlobSpec{u.bl}
		if bad {
			// right length, wrong bytes: the stream differs from blob A at byte D
			u.bl.D = vsym.Int64("firstDifference")
			vsym.Assume(u.bl.D >= 0)
			vsym.Assume(u.bl.D < fixedSize)
		}
	} else {
		u = vArbitraryUpload(vHashA, 2<<20, 0)
		vsym.Assume(u.size >= 1)
		vsym.Assume(u.st.L == u.size)
		vsym.Assume(u.bl.N == u.size)
		vsym.Assume(u.bl.D >= u.bl.N)
		vsym.Assume(u.st.FailAt < 0)
	}
	vsym.Assume(c.lru.maxSize >= 8<<20)
	vsym.Assume(c.lru.reservedSize == 0)
	crashAt := vsym.Choose("crashAt", maxSteps+1) // 0 = no crash
	vmodel.FS.CrashAt = crashAt
	vsym.Fact("kind", kind.String())
	vsym.Fact("mode", int(mode))

	err := c.Put(context.Background(), kind, vHashA, u.size, u.st)
	acked := err == nil && !vmodel.FS.Dead
	if bad {
		vsym.Assert(!acked, "crash/C01-upload-of-wrong-bytes-acknowledged")
	}
	if crashAt != 0 && !vmodel.FS.Dead {
		vsym.Stop("the upload has fewer file-system steps than the crash point")
	}
	if vmodel.FS.Dead {
		vsym.Reach("crashed-during-upload")
	}

	// ---- restart on the image
	vmodel.FS.Restart()
	c2 := &diskCache{dir: vDir, storageMode: mode, zstd: d.codec, maxBlobSize: 1 << 40, maxProxyBlobSize: 1 << 40, diskWaitSem: c.diskWaitSem}
	lerr := c2.loadExistingFiles(c.lru.maxSize, CacheConfig{diskCache: c2}) // same max_size as before the kill
	vsym.Assert(lerr == nil, "crash/C08-restart-succeeds")
	if lerr != nil {
		return
	}
	// the codec must know the blob file for reads of compressed entries
	if kind == cache.CAS && mode == casblob.Zstandard && len(vmodel.FS.Files) == 1 {
		mf := vmodel.FS.Files[0]
		d.codec.FileID = mf.ID
		d.codec.N = u.size
		d.codec.Chunk = 1 << 20
		d.codec.Arbitrary = false
		// frames as recorded by the writer
		d.codec.Table = nil
	}
	sizeKnown := vsym.Choose("sizeKnown", 2) == 1
	req := int64(-1)
	if sizeKnown {
		req = u.size
		vsym.Fact("sizeKnown", "yes")
	} else {
		vsym.Fact("sizeKnown", "no")
	}
	rc, found, gerr := c2.Get(context.Background(), kind, vHashA, req, 0)
	if acked {
		vsym.Reach("acknowledged-before-crash")
		vsym.Assert(gerr == nil && rc != nil, "crash/C08-acknowledged-upload-is-served-after-restart")
	}
	if gerr != nil || rc == nil {
		vsym.Reach("absent-after-restart")
		// the unreadable leftover is dropped, so that the interrupted upload
		// can simply be repeated (Contains / FindMissing no longer report it)
		if _, el := c2.lru.Get(cache.LookupKey(kind, vHashA)); el != nil {
			vsym.Assert(req >= 0 && el.Value.(*entry).value.size != req, "crash/C08-unreadable-leftover-stays-indexed")
		}
		return
	}
	vsym.Reach("served-after-restart")
	if bad {
		// whatever the crash point: bytes that are not blob A are never served as A
		vsym.Assert(false, "crash/C08-rejected-upload-served-after-restart")
		return
	}
	vsym.Assert(found == u.size, "crash/C08-served-entry-has-the-uploaded-size")
	if kind == cache.CAS && mode == casblob.Zstandard {
		// content of compressed entries: covered by header validation; the
		// decoder stub would need the frame table: only the size is checked here
		_ = rc.Close()
		return
	}
	segs, rerr := zstdimpl.Drain(rc, 3)
	vsym.Assert(rerr == nil, "crash/C08-stream-has-no-error")
	// every byte served comes from the one file, all of it, and that file
	// holds exactly the uploaded bytes
	okF := len(vmodel.FS.Files) == 1
	vsym.Assert(okF, "crash/C04-exactly-one-file-after-restart")
	if okF {
		mf := vmodel.FS.Files[0]
		zstdimpl.AssertRange(segs, mf.ID, 0, u.size, "crash/C08-no-torn-entry-served")
		okE := len(mf.Ext) == 1
		vsym.Assert(okE, "crash/C08-served-file-is-one-complete-write")
		if okE {
			e := mf.Ext[0]
			vsym.Assert(e.Src == "upload" && e.SrcOff == 0 && e.Off == 0, "crash/C08-served-file-holds-the-uploaded-bytes")
			vsym.Assert(e.Len == u.size, "crash/C08-served-file-holds-all-uploaded-bytes")
		}
	}
	_ = rc.Close()
}

func VerifCrashPutCasRaw()  { vCrashPut(cache.CAS, casblob.Identity, 8, 0, false) }
func VerifCrashPutAC()      { vCrashPut(cache.AC, casblob.Zstandard, 8, 0, false) }
func VerifCrashPutCasZstd() { vCrashPut(cache.CAS, casblob.Zstandard, 14, 1500000, false) }

// the same upload with wrong bytes (right length): refused, and at no crash
// point is the file left in a state the restarted server would serve
func VerifCrashPutCasZstdBad() { vCrashPut(cache.CAS, casblob.Zstandard, 14, 1500000, true) }

// vCrashFetch: a blob is being fetched from the backend when the process is
// killed at the k-th file-system step; restart; read the key. In compressed
// CAS mode the backend delivers a finished casblob file, header first: the
// file on disk carries a perfectly valid header and may be truncated. In the
// raw modes (AC, uncompressed CAS) the file is the blob itself.
func vCrashFetch(kind cache.EntryKind, mode casblob.CompressionType) {
	compressed := kind == cache.CAS && mode == casblob.Zstandard
	d := vNewDisk(0, mode, nil, true)
	c, px := d.c, d.px
	vCrashDirs()
	vsym.Assume(c.maxBlobSize >= 2<<20)
	vsym.Assume(c.maxProxyBlobSize >= 2<<20)
	vsym.Assume(c.lru.maxSize >= 8<<20)
	vsym.Assume(c.lru.reservedSize == 0)
	c.lru.maxSizeHardLimit = 0
	l := vsym.Int64("fileLen")
	vsym.Assume(l > 45)
	vsym.Assume(l < 4<<20)
	logical := l
	bs := &vmodel.MStream{Name: "backend", L: l, FailAt: -1}
	if compressed {
		logical = 1500000 // appears in the file name the loader parses
		head := vsym.Bytes("bh", 45)
		vsym.Assume(vLE(head, 0, 4) == 0x184D2A50)
		vsym.Assume(vLE(head, 4, 4) == 2*8+8+1+4+8)
		vsym.Assume(vLE(head, 8, 8) == logical)
		vsym.Assume(head[16] == byte(casblob.Zstandard))
		vsym.Assume(vLE(head, 17, 4) == 2<<20) // one chunk
		vsym.Assume(vLE(head, 21, 8) == 2)
		vsym.Assume(vLE(head, 29, 8) == 45)
		vsym.Assume(vLE(head, 37, 8) == l)
		bs.Head = head
	}
	px.getRC, px.getSize = bs, logical
	d.codec.Arbitrary = true
	crashAt := vsym.Choose("crashAt", 9) // 0 = no crash
	vmodel.FS.CrashAt = crashAt
	sizeKnown := vsym.Choose("sizeKnown", 2) == 1
	req := int64(-1)
	if sizeKnown {
		req = logical
		vsym.Fact("sizeKnown", "yes")
	} else {
		vsym.Fact("sizeKnown", "no")
	}
	vsym.Fact("kind", kind.String())
	vsym.Fact("mode", int(mode))

	rc, _, err := c.Get(context.Background(), kind, vHashA, req, 0)
	served := err == nil && rc != nil && !vmodel.FS.Dead
	if crashAt != 0 && !vmodel.FS.Dead {
		vsym.Stop("the fetch has fewer file-system steps than the crash point")
	}
	if vmodel.FS.Dead {
		vsym.Reach("crashed-during-fetch")
	}
	if rc != nil && !vmodel.FS.Dead {
		_ = rc.Close()
	}

	vmodel.FS.Restart()
	c2 := &diskCache{dir: vDir, storageMode: mode, zstd: d.codec, maxBlobSize: 1 << 40, maxProxyBlobSize: 1 << 40, diskWaitSem: c.diskWaitSem}
	lerr := c2.loadExistingFiles(c.lru.maxSize, CacheConfig{diskCache: c2})
	vsym.Assert(lerr == nil, "crashfetch/C08-restart-succeeds")
	if lerr != nil {
		return
	}
	var rc2 io.ReadCloser
	var found int64
	var gerr error
	if compressed && vsym.Choose("readAsZstd", 2) == 1 {
		rc2, found, gerr = c2.GetZstd(context.Background(), vHashA, req, 0)
	} else {
		rc2, found, gerr = c2.Get(context.Background(), kind, vHashA, req, 0)
	}
	if served {
		vsym.Reach("fetched-before-crash")
		vsym.Assert(gerr == nil && rc2 != nil, "crashfetch/C08-completed-fetch-is-served-after-restart")
	}
	if gerr != nil || rc2 == nil {
		vsym.Reach("absent-after-restart")
		return
	}
	vsym.Reach("served-after-restart")
	okF := len(vmodel.FS.Files) == 1
	vsym.Assert(okF, "crashfetch/C04-exactly-one-file-after-restart")
	if okF {
		// a file cut short by the kill is never served
		vsym.Assert(vmodel.FS.Files[0].Size == l, "crashfetch/C08-no-torn-entry-served")
	}
	vsym.Assert(found == logical, "crashfetch/C08-served-entry-has-the-blob-size")
	_ = rc2.Close()
}

func VerifCrashFetchCasZstd() { vCrashFetch(cache.CAS, casblob.Zstandard) }
func VerifCrashFetchCasRaw()  { vCrashFetch(cache.CAS, casblob.Identity) }
func VerifCrashFetchAC()      { vCrashFetch(cache.AC, casblob.Zstandard) }

// vCrashOverwrite: an action-cache key that already has a complete value is
// being overwritten when the process is killed at the k-th file-system step
// (including the background remover's unlink of the old file, which runs
// before the crash point or not at all); restart; read the key. Afterwards the
// key serves one whole version: the old one, or the new one - and the new one
// if the overwrite had been acknowledged.
func VerifCrashOverwriteAC() {
	kind := cache.AC
	mode := casblob.Zstandard
	d := vNewDisk(1, mode, []cache.EntryKind{kind}, false)
	c, st := d.c, d.st
	vCrashDirs()
	vmodel.FS.AddDir(vDir + "/ac.v2/bb")
	hash := vHashes[0]
	old := d.files[0]
	s0 := st.items[0].sizeOnDisk
	vsym.Assume(s0 < 1<<30)
	vsym.Assume(c.maxBlobSize >= 2<<20)
	vsym.Assume(c.lru.maxSize >= 8<<20)
	vsym.Assume(c.lru.currentSize < 2<<20)
	vsym.Assume(c.lru.reservedSize == 0)
	c.lru.maxSizeHardLimit = 0
	u := vArbitraryUpload(hash, 2<<20, 0)
	vsym.Assume(u.size >= 1)
	vsym.Assume(u.st.L == u.size)
	vsym.Assume(u.st.FailAt < 0)
	crashAt := vsym.Choose("crashAt", 10) // 0 = no crash
	vmodel.FS.CrashAt = crashAt
	vsym.Fact("kind", kind.String())
	vsym.Fact("mode", int(mode))

	err := c.Put(context.Background(), kind, hash, u.size, u.st)
	acked := err == nil && !vmodel.FS.Dead
	if !vmodel.FS.Dead {
		// the background remover deletes the replaced file (or is killed doing so)
		d.drain()
	}
	if crashAt != 0 && !vmodel.FS.Dead {
		vsym.Stop("the overwrite has fewer file-system steps than the crash point")
	}
	if vmodel.FS.Dead {
		vsym.Reach("crashed-during-overwrite")
	}

	vmodel.FS.Restart()
	c2 := &diskCache{dir: vDir, storageMode: mode, zstd: d.codec, maxBlobSize: 1 << 40, maxProxyBlobSize: 1 << 40, diskWaitSem: c.diskWaitSem}
	lerr := c2.loadExistingFiles(c.lru.maxSize, CacheConfig{diskCache: c2})
	vsym.Assert(lerr == nil, "crashover/C08-restart-succeeds")
	if lerr != nil {
		return
	}
	sizeKnown := vsym.Choose("sizeKnown", 2) == 1
	req := int64(-1)
	if sizeKnown {
		req = u.size
		vsym.Fact("sizeKnown", "yes")
	} else {
		vsym.Fact("sizeKnown", "no")
	}
	rc, found, gerr := c2.Get(context.Background(), kind, hash, req, 0)
	if gerr != nil || rc == nil {
		vsym.Reach("absent-after-restart")
		if acked {
			vsym.Assert(false, "crashover/C08-acknowledged-overwrite-is-served-after-restart")
		}
		if !sizeKnown {
			// the key had a complete value before and nothing evicted it
			vsym.Assert(false, "crashover/C08-key-lost-by-an-interrupted-overwrite")
		}
		return
	}
	vsym.Reach("served-after-restart")
	segs, rerr := zstdimpl.Drain(rc, 3)
	_ = rc.Close()
	vsym.Assert(rerr == nil, "crashover/C08-stream-has-no-error")
	// which file was served?
	var served *vmodel.MFile
	for _, f := range vmodel.FS.Files {
		if len(segs) > 0 && segs[0].Src == f.ID {
			served = f
		}
	}
	okS := served != nil
	vsym.Assert(okS, "crashover/C08-served-bytes-come-from-one-file")
	if !okS {
		return
	}
	zstdimpl.AssertRange(segs, served.ID, 0, found, "crashover/C08-whole-file-served")
	if served == old {
		vsym.Reach("old-version-served")
		vsym.Assert(found == s0, "crashover/C08-old-version-whole")
		vsym.Assert(!acked, "crashover/C08-acknowledged-overwrite-lost")
	} else {
		vsym.Reach("new-version-served")
		okE := len(served.Ext) == 1
		vsym.Assert(okE, "crashover/C08-new-version-is-one-complete-write")
		if okE {
			e := served.Ext[0]
			vsym.Assert(e.Src == "upload" && e.SrcOff == 0 && e.Off == 0, "crashover/C08-new-version-holds-the-uploaded-bytes")
			vsym.Assert(vsym.And(e.Len == u.size, found == u.size), "crashover/C08-no-torn-entry-served")
		}
	}
}
