package disk

// H4/H5: diskCache.get / Contains on the file-system model: local hits and
// misses, size known or unknown, offsets, corrupt or missing files, and every
// behaviour of a proxy backend. Serves C02, C03, C04, C05, C12, C15, C17, C18.

import (
	"context"
	"io"

	"github.com/buchgr/bazel-remote/v2/cache"
	"github.com/buchgr/bazel-remote/v2/cache/disk/casblob"
	"github.com/buchgr/bazel-remote/v2/cache/disk/zstdimpl"
	"github.com/buchgr/bazel-remote/v2/zzverif/vmodel"
	"github.com/buchgr/bazel-remote/v2/zzverif/vsym"
)

// vGetLocal: one read of key K (entry 0 if present) from a cache without backend.
//   fileState: 0 good, 1 missing, 2 corrupt (arbitrary header)
func vGetLocal(kind cache.EntryKind, mode casblob.CompressionType, wantZstd bool, nOff int) {
	vGetLocalX(kind, mode, mode, wantZstd, nOff)
}

// vGetLocalX: the entries were written in storage mode `mode` (that decides
// their file format and name); the server now runs in `serverMode` (entries
// written under the other storage mode stay readable: C09, C20).
func vGetLocalX(kind cache.EntryKind, mode, serverMode casblob.CompressionType, wantZstd bool, nOff int) {
	n := 1 + vsym.Choose("n", 2) // 1 or 2 entries
	present := vsym.Choose("present", 2) == 1
	kinds := []cache.EntryKind{kind, cache.CAS}
	d := vNewDisk(n, mode, kinds, false)
	c, st := d.c, d.st
	c.storageMode = serverMode
	tg := "C02"
	if mode != serverMode {
		tg = "C02-C09-C20"
	}
	hash := vHashA
	if present {
		hash = vHashes[0]
	}
	key := cache.LookupKey(kind, hash)
	fileState := 0
	var blob *zstdimpl.SpecBlob
	if present {
		fileState = vsym.Choose("fileState", 3)
		it := st.items[0]
		p := c.getElementPath(key, it)
		// replace the placeholder file of entry 0 by a real one
		vmodel.FS.Files = vmodel.FS.Files[1:]
		switch fileState {
		case 0:
			if kind == cache.CAS && mode == casblob.Zstandard {
				blob = zstdimpl.NewSpecBlob(p, nOff, 1, &it.size)
				vsym.Assume(blob.FSize == it.sizeOnDisk)
				d.codec.FileID, d.codec.Table, d.codec.Chunk, d.codec.N = blob.Codec.FileID, blob.Codec.Table, blob.Codec.Chunk, blob.Codec.N
				d.files[0] = blob.MF
			} else {
				d.files[0] = vmodel.FS.AddFile(p, nil, it.sizeOnDisk)
			}
		case 1:
			// indexed but the file is gone
		case 2:
			if kind != cache.CAS || mode != casblob.Zstandard {
				vsym.Stop("corrupt header only applies to compressed CAS")
			}
			head := vsym.Bytes("h", 45)
			d.files[0] = vmodel.FS.AddFile(p, head, it.sizeOnDisk)
			vsym.Assume(it.sizeOnDisk >= 45)
			d.codec.Arbitrary = true
			d.codec.FileID = d.files[0].ID
			// bound: table of 2 entries (as VerifReadArbitrary2)
			cnt := int64(0)
			for i := 0; i < 8; i++ {
				cnt |= int64(head[21+i]) << (8 * uint(i))
			}
			vsym.Assume(cnt == 2)
		}
	}
	size := vsym.Int64("reqsize")
	vsym.Assume(size >= -1)
	vsym.Assume(size < vmaxSz)
	off := vsym.Int64("offset")
	vsym.Assume(off < vmaxSz)
	vsym.Assume(off > -vmaxSz)
	vsym.Fact("kind", kind.String())
	vsym.Fact("mode", int(mode))
	vsym.Fact("fileState", fileState)
	if present && fileState == 0 {
		// the property speaks about read_offset <= n; larger offsets (only
		// expressible when the size is not given) are covered for safety by the
		// arbitrary-header harnesses
		vsym.Assume(off <= st.items[0].size)
	}

	var rc io.ReadCloser
	var found int64
	var err error
	if wantZstd {
		rc, found, err = c.GetZstd(context.Background(), hash, size, off)
	} else {
		rc, found, err = c.Get(context.Background(), kind, hash, size, off)
	}

	vsym.Assert(c.lru.reservedSize == st.res0, "get/C03-reserved-unchanged-without-backend")
	badOffset := vsym.Or(off < 0, vsym.And(size > 0, off >= size))
	if err != nil {
		vsym.Reach("get-error")
		vsym.Assert(rc == nil, "get/error-returns-no-reader")
		beyond := false
		if present {
			beyond = off > st.items[0].size
		}
		vsym.Assert(vsym.Or(badOffset, beyond), "get/local-read-errors-only-for-invalid-offset")
		vsym.Assert(vmodel.FS.OpenCount == 0, "get/C14-no-open-file-after-error")
		cnt := st.checkIndex("", 0, 0, "get-error")
		vsym.Assert(cnt == n, "get/error-leaves-index")
		return
	}
	vsym.Assert(vsym.Not(badOffset), "get/invalid-offset-is-rejected")
	var it lruItem
	if present {
		it = st.items[0]
	}
	sizeOK := vsym.Or(vsym.Or(size < 0, it.size < 0), size == it.size)
	if rc == nil {
		vsym.Reach("get-miss")
		vsym.Assert(found == -1, "get/miss-reports-no-size")
		vsym.Assert(vmodel.FS.OpenCount == 0, "get/C14-no-open-file-after-miss")
		d.drain()
		if present && fileState != 0 {
			// the broken entry may have been dropped from the index; whatever
			// happened, accounting and directory must be consistent
			vsym.Reach("get-miss-broken-entry")
			_, el := c.lru.Get(key)
			if el == nil {
				vsym.Reach("get-broken-entry-dropped")
				// recompute with entry 0 gone
				sum := c.lru.reservedSize
				for e := c.lru.ll.Front(); e != nil; e = e.Next() {
					i := st.idx(e.Value.(*entry).key)
					vsym.Assert(i > 0, "get/index-content-after-drop")
					if i > 0 {
						sum += st.rd[i]
					}
				}
				vsym.Assert(c.lru.currentSize == sum, "get/C03-accounting-exact-after-dropping-broken-entry")
				vsym.Assert(len(c.lru.cache) == n-1, "get/map-size-after-drop")
			}
			return
		}
		if present {
			vsym.Assert(vsym.Not(sizeOK), "get/"+tg+"-present-blob-with-matching-size-is-a-hit")
		}
		cnt := st.checkIndex("", 0, 0, "get-miss")
		vsym.Assert(cnt == n, "get/miss-leaves-index")
		d.checkDirEqualsIndex("get-miss")
		return
	}
	vsym.Reach("get-hit")
	vsym.Assert(present, "get/C15-hit-only-for-the-requested-key")
	if !present {
		return
	}
	if fileState == 2 {
		// a corrupt file may still be "readable"; only safety is claimed (C14)
		vsym.Reach("get-hit-on-arbitrary-header")
		_ = rc.Close()
		vsym.Assert(vsym.Quiesce() == 0, "get/C14-no-goroutine-left")
		vsym.Assert(vmodel.FS.OpenCount == 0, "get/C14-no-open-file-after-close")
		return
	}
	vsym.Assert(fileState == 0, "get/hit-although-file-is-missing")
	vsym.Assert(sizeOK, "get/"+tg+"-size-mismatch-must-be-a-miss")
	vsym.Assert(found == it.size, "get/"+tg+"-reported-size-is-the-blob-size")
	// the hit counts as a use
	fr := c.lru.ll.Front()
	vsym.Assert(fr != nil && fr.Value.(*entry).key == key, "get/C05-hit-moves-entry-to-front")
	// content
	segs, rerr := zstdimpl.Drain(rc, 4)
	vsym.Assert(rerr == nil, "get/"+tg+"-stream-has-no-error")
	switch {
	case kind == cache.CAS && mode == casblob.Zstandard && !wantZstd:
		zstdimpl.AssertRange(segs, d.codec.Logical(), off, it.size-off, "get/"+tg+"-uncompressed")
		vsym.Assert(len(d.codec.Bad) == 0, "get/"+tg+"-codec-fed-whole-frames")
	case kind == cache.CAS && mode == casblob.Zstandard && wantZstd:
		zstdimpl.AssertZstdStream(blob, d.codec, segs, off, "get/"+tg)
	case wantZstd:
		// raw file re-encoded on the fly: every frame encodes the next run of file bytes
		pos := off
		for i, s := range segs {
			okE := i < len(d.codec.Encs) && s.Src == zstdimplEnc(i)
			vsym.Assert(okE, "get/"+tg+"-legacy-zstd-stream-is-made-of-frames")
			if okE {
				e := d.codec.Encs[i]
				vsym.Assert(e.Known && e.Src == d.files[0].ID && e.SrcOff == pos, "get/"+tg+"-legacy-zstd-frames-encode-consecutive-file-bytes")
				vsym.Assert(s.Off == 0 && s.N == e.Len, "get/"+tg+"-legacy-zstd-frame-whole")
				pos += e.SrcLen
			}
		}
		vsym.Assert(pos == it.size, "get/"+tg+"-legacy-zstd-stream-covers-rest-of-blob")
	default:
		zstdimpl.AssertRange(segs, d.files[0].ID, off, it.size-off, "get/"+tg+"-raw")
	}
	cerr := rc.Close()
	_ = cerr
	vsym.Assert(vsym.Quiesce() == 0, "get/C14-no-goroutine-left")
	vsym.Assert(vmodel.FS.OpenCount == 0, "get/C14-no-open-file-after-close")
	cnt := st.checkIndex("", 0, 0, "get-hit")
	vsym.Assert(cnt == n, "get/hit-leaves-index")
	d.checkDirEqualsIndex("get-hit")
}

func zstdimplEnc(i int) string {
	return []string{"enc0", "enc1", "enc2", "enc3", "enc4", "enc5", "enc6", "enc7"}[i]
}

func VerifGetCasZstd()        { vGetLocal(cache.CAS, casblob.Zstandard, false, 3) }
func VerifGetCasZstdAsZstd()  { vGetLocal(cache.CAS, casblob.Zstandard, true, 3) }
func VerifGetCasRaw()         { vGetLocal(cache.CAS, casblob.Identity, false, 0) }
func VerifGetCasRawAsZstd()   { vGetLocal(cache.CAS, casblob.Identity, true, 0) }
func VerifGetAC()             { vGetLocal(cache.AC, casblob.Zstandard, false, 0) }

// entries written under the other storage mode
func VerifGetCasRawInZstdMode()       { vGetLocalX(cache.CAS, casblob.Identity, casblob.Zstandard, false, 0) }
func VerifGetCasRawInZstdModeAsZstd() { vGetLocalX(cache.CAS, casblob.Identity, casblob.Zstandard, true, 0) }
func VerifGetCasZstdInRawMode()       { vGetLocalX(cache.CAS, casblob.Zstandard, casblob.Identity, false, 3) }
func VerifGetCasZstdInRawModeAsZstd() { vGetLocalX(cache.CAS, casblob.Zstandard, casblob.Identity, true, 3) }

// ---- trivial gets

func VerifGetSpecial() {
	d := vNewDisk(vsym.Choose("n", 2), casblob.Zstandard, []cache.EntryKind{cache.CAS}, false)
	c := d.c
	size := vsym.Int64("reqsize")
	vsym.Assume(size >= -1)
	off := vsym.Int64("offset")
	switch vsym.Choose("case", 3) {
	case 0:
		// the empty blob is readable even from an empty cache, raw and compressed
		vsym.Assume(size <= 0)
		rc, found, err := c.Get(context.Background(), cache.CAS, emptySha256, size, off)
		vsym.Reach("empty-blob")
		vsym.Assert(err == nil && rc != nil, "get/C02-empty-blob-always-readable")
		vsym.Assert(found == 0, "get/C02-empty-blob-has-size-0")
		if rc != nil {
			segs, rerr := zstdimpl.Drain(rc, 2)
			vsym.Assert(rerr == nil && len(segs) == 0, "get/C02-empty-blob-has-no-bytes")
		}
		rz, fz, errz := c.GetZstd(context.Background(), emptySha256, size, off)
		vsym.Assert(errz == nil && rz != nil && fz == 0, "get/C02-empty-blob-readable-as-zstd")
	case 1:
		// compressed reads only from the CAS
		kind := cache.AC
		if vsym.Choose("kind", 2) == 1 {
			kind = cache.RAW
		}
		rc, _, err := c.get(context.Background(), kind, vHashes[0], size, off, true)
		vsym.Reach("zstd-non-cas")
		vsym.Assert(err != nil && rc == nil, "get/C15-compressed-read-only-from-the-CAS")
	case 2:
		// malformed hash length
		rc, _, err := c.Get(context.Background(), cache.CAS, "abc", size, off)
		vsym.Reach("short-hash")
		vsym.Assert(err != nil && rc == nil, "get/malformed-hash-rejected")
	}
	vsym.Assert(vmodel.FS.OpenCount == 0, "get/C14-no-open-file")
}

// ---- Contains (local and backend)

func VerifContains() {
	n := 1 + vsym.Choose("n", 2)
	kind := cache.CAS
	if vsym.Choose("kind", 2) == 1 {
		kind = cache.AC
	}
	withProxy := vsym.Choose("proxy", 2) == 1
	d := vNewDisk(n, casblob.Zstandard, []cache.EntryKind{kind, cache.CAS}, withProxy)
	c, st := d.c, d.st
	present := vsym.Choose("present", 2) == 1
	hash := vHashA
	if present {
		hash = vHashes[0]
	}
	size := vsym.Int64("reqsize")
	vsym.Assume(size >= -1)
	vsym.Assume(size < vmaxSz)
	if withProxy {
		d.px.hasBlob = vsym.Bool("backendHas")
		d.px.hasSize = vsym.Int64("backendSize")
		vsym.Assume(d.px.hasSize >= -1)
	}
	ok, found := c.Contains(context.Background(), kind, hash, size)
	var it lruItem
	if present {
		it = st.items[0]
	}
	localHit := vsym.And(present, vsym.Or(size < 0, size == it.size))
	if ok {
		vsym.Reach("contains-yes")
		if withProxy {
			backendHit := vsym.And(vsym.And(d.px.hasBlob, size <= c.maxProxyBlobSize), vsym.And(d.px.hasSize <= c.maxProxyBlobSize, vsym.Or(vsym.Or(size < 0, d.px.hasSize < 0), size == d.px.hasSize)))
			vsym.Assert(vsym.Or(localHit, backendHit), "contains/C10-reported-present-only-if-present")
			if d.px.contains > 0 {
				vsym.Reach("contains-by-backend")
				vsym.Assert(found <= c.maxProxyBlobSize, "contains/C18-backend-object-larger-than-limit-not-reported")
			}
		} else {
			vsym.Assert(localHit, "contains/C10-reported-present-only-if-present")
			vsym.Assert(found == it.size, "contains/reports-blob-size")
		}
	} else {
		vsym.Reach("contains-no")
		vsym.Assert(vsym.Not(localHit), "contains/C10-present-blob-is-found")
		vsym.Assert(found == -1, "contains/miss-reports-no-size")
	}
	if present {
		fr := c.lru.ll.Front()
		vsym.Assert(fr != nil && fr.Value.(*entry).key == cache.LookupKey(kind, hash), "contains/C05-lookup-hit-moves-entry-to-front")
	}
	cnt := st.checkIndex("", 0, 0, "contains")
	vsym.Assert(cnt == n, "contains/index-unchanged")
	vsym.Assert(c.lru.reservedSize == st.res0, "contains/C03-reserved-unchanged")
}

// ---------------------------------------------------------------- backend fetch

// vGetProxy: a local miss for key A with a backend that behaves arbitrarily.
func vGetProxy(kind cache.EntryKind, mode casblob.CompressionType, wantZstd bool) {
	n := vsym.Choose("n", 2)
	d := vNewDisk(n, mode, []cache.EntryKind{cache.CAS}, true)
	c, st, px := d.c, d.st, d.px
	st.setBacklog()
	c.lru.maxSizeHardLimit = vsym.Int64("hard")
	vsym.Assume(c.lru.maxSizeHardLimit < vmaxSz)
	vsym.Assume(c.lru.maxSizeHardLimit > -vmaxSz)
	hard := c.lru.maxSizeHardLimit
	hash := vHashA
	key := cache.LookupKey(kind, hash)
	size := vsym.Int64("reqsize")
	vsym.Assume(size >= -1)
	vsym.Assume(size < 1<<40)
	off := vsym.Int64("offset")
	vsym.Assume(off >= 0)
	vsym.Assume(off < 1<<40)
	// backend behaviour
	var bs *vmodel.MStream
	px.getSize = vsym.Int64("foundSize")
	vsym.Assume(px.getSize > -vmaxSz)
	vsym.Assume(px.getSize < 1<<40)
	switch vsym.Choose("backend", 4) {
	case 0: // not found
		vsym.Fact("backend", "miss")
	case 1: // error without reader
		px.getErr = vErrBackend
		vsym.Fact("backend", "error")
	case 2: // error with reader
		px.getErr = vErrBackend
		bs = &vmodel.MStream{Name: "backend", L: 0, FailAt: -1}
		px.getRC = bs
		vsym.Fact("backend", "error+reader")
	case 3: // a stream of any length, possibly failing part-way
		l := vsym.Int64("streamLen")
		vsym.Assume(l >= 0)
		vsym.Assume(l < 1<<40)
		fail := vsym.Int64("failAt")
		vsym.Assume(fail >= -1)
		vsym.Assume(fail <= l)
		bs = &vmodel.MStream{Name: "backend", L: l, FailAt: fail, Err: vErrBackend}
		if kind == cache.CAS && mode == casblob.Zstandard && vsym.Choose("withHeader", 2) == 1 {
			// a fetched compressed blob: arbitrary 45 header bytes, bounded to a 2-entry table
			vsym.Assume(fail < 0)
			vsym.Assume(l >= 45)
			head := vsym.Bytes("bh", 45)
			cnt := int64(0)
			for i := 0; i < 8; i++ {
				cnt |= int64(head[21+i]) << (8 * uint(i))
			}
			vsym.Assume(cnt == 2)
			bs.Head = head
		} else if kind == cache.CAS && mode == casblob.Zstandard {
			// without a byte-precise header only streams too short to hold one
			vsym.Assume(l < 45)
		}
		px.getRC = bs
		vsym.Fact("backend", "stream")
	}
	d.codec.Arbitrary = true // a fetched compressed blob has arbitrary bytes
	vsym.Fact("kind", kind.String())
	vsym.Fact("mode", int(mode))
	if size >= 0 {
		vsym.Fact("sizeKnown", "yes")
	} else {
		vsym.Fact("sizeKnown", "no")
	}

	var rc io.ReadCloser
	var found int64
	var err error
	if wantZstd {
		rc, found, err = c.GetZstd(context.Background(), hash, size, off)
	} else {
		rc, found, err = c.Get(context.Background(), kind, hash, size, off)
	}

	vsym.Assert(c.lru.reservedSize == st.res0, "proxyget/C03-C05-C12-reserved-space-returned")
	if bs != nil && px.gets > 0 {
		vsym.Assert(bs.Closed >= 1, "proxyget/C12-backend-reader-closed")
	}
	asked := px.gets > 0
	if asked {
		vsym.Reach("proxyget-backend-asked")
		vsym.Assert(size <= c.maxProxyBlobSize, "proxyget/C18-backend-not-asked-for-oversize-blob")
	}
	hit := rc != nil
	if !hit {
		if err != nil {
			vsym.Reach("proxyget-error")
		} else {
			vsym.Reach("proxyget-miss")
		}
		// nothing cached, nothing left behind (once the encoder goroutine of
		// an on-the-fly compressed read has noticed that its reader is gone)
		vsym.Quiesce()
		d.drain()
		_, el := c.lru.Get(key)
		vsym.Assert(el == nil, "proxyget/C12-failed-fetch-caches-nothing")
		d.checkDirEqualsIndex("proxyget-nohit/C12")
		cnt := st.checkIndex("", 0, 0, "proxyget-nohit")
		_ = cnt
		if err != nil {
			if ce, ok := err.(*cache.Error); ok && ce.Code == 507 {
				vsym.Reach("proxyget-507")
				vsym.Assert(len(st.evicted) == 0, "proxyget/C17-overload-refusal-evicts-nothing")
			}
		}
		return
	}
	vsym.Reach("proxyget-hit")
	vsym.Assert(err == nil, "proxyget/hit-without-error")
	vsym.Assert(asked && bs != nil && px.getErr == nil, "proxyget/C12-hit-only-from-a-successful-backend-answer")
	if bs == nil {
		return
	}
	vsym.Assert(found == px.getSize, "proxyget/C12-reported-size-is-backend-size")
	vsym.Assert(found >= 0, "proxyget/C12-unknown-backend-size-is-not-a-hit")
	vsym.Assert(vsym.Or(size < 0, found == size), "proxyget/C12-size-mismatch-is-not-a-hit")
	vsym.Assert(found <= c.maxProxyBlobSize, "proxyget/C12-C18-oversize-backend-object-not-served")
	noFault := vsym.Or(bs.FailAt < 0, bs.FailAt >= bs.L)
	vsym.Assert(noFault, "proxyget/C12-stream-error-is-not-a-hit")
	// committed entry
	it, el := c.lru.Get(key)
	vsym.Assert(el != nil, "proxyget/C12-served-entry-is-cached")
	if el == nil {
		return
	}
	vsym.Assert(it.size == found, "proxyget/indexed-with-backend-size")
	vsym.Assert(it.sizeOnDisk == bs.L, "proxyget/indexed-with-bytes-received")
	uncompressedOnDisk := kind != cache.CAS || mode == casblob.Identity
	if !uncompressedOnDisk && bs.Head != nil {
		// a compressed object is complete only if it is as long as its own
		// chunk table says (final offset = file size): a stream that ends
		// early without an error is not a hit and is not cached
		vsym.Assert(vLE(bs.Head, 37, 8) == bs.L, "proxyget/C12-truncated-compressed-stream-is-not-a-hit")
	}
	if uncompressedOnDisk {
		// entries stored raw: the object is complete only if all advertised bytes arrived
		vsym.Assert(bs.L == found, "proxyget/C12-short-or-long-stream-is-not-a-hit")
	}
	if hard > 0 {
		vsym.Reach("proxyget-hit-with-hard-limit")
		vsym.Assert(st.cur0+st.q0+found <= hard, "proxyget/C17-fetch-admitted-only-within-hard-limit")
	}
	_ = rc.Close()
	vsym.Assert(vsym.Quiesce() == 0, "proxyget/C14-no-goroutine-left")
	vsym.Assert(vmodel.FS.OpenCount == 0, "proxyget/C14-no-open-file-after-close")
	d.drain()
	var rd, ru int64
	rd, ru = vsym.Int64("newrd"), vsym.Int64("newru")
	vAssumeRound(it.sizeOnDisk, rd)
	vAssumeRound(it.size, ru)
	_, still := c.lru.Get(key)
	if still != nil {
		st.checkIndex(key, rd, ru, "proxyget-hit")
	}
	d.checkDirEqualsIndex("proxyget-hit/C12-C20")
}

var vErrBackend = errorString("backend fault")

type errorString string

func (e errorString) Error() string { return string(e) }

func VerifProxyGetAC()         { vGetProxy(cache.AC, casblob.Zstandard, false) }
func VerifProxyGetCasRaw()     { vGetProxy(cache.CAS, casblob.Identity, false) }
func VerifProxyGetCasZstd()    { vGetProxy(cache.CAS, casblob.Zstandard, false) }
func VerifProxyGetCasZstdZ()   { vGetProxy(cache.CAS, casblob.Zstandard, true) }

// A compressed CAS object fetched from the backend whose stream ends early (or
// runs on) without any error: the header is perfectly valid for a file of
// tableEnd bytes, the stream delivers streamLen bytes.
func VerifProxyGetCasZstdShort() {
	const logical = 1500000
	d := vNewDisk(0, casblob.Zstandard, nil, true)
	c, px := d.c, d.px
	vsym.Assume(c.maxBlobSize >= 2<<20)
	vsym.Assume(c.maxProxyBlobSize >= 2<<20)
	vsym.Assume(c.lru.maxSize >= 8<<20)
	vsym.Assume(c.lru.reservedSize == 0)
	c.lru.maxSizeHardLimit = 0
	tableEnd := vsym.Int64("tableEnd")
	vsym.Assume(tableEnd > 45)
	vsym.Assume(tableEnd < 4<<20)
	streamLen := vsym.Int64("streamLen")
	vsym.Assume(streamLen >= 45)
	vsym.Assume(streamLen < 8<<20)
	head := vsym.Bytes("bh", 45)
	vsym.Assume(vLE(head, 0, 4) == 0x184D2A50)
	vsym.Assume(vLE(head, 4, 4) == 2*8+8+1+4+8)
	vsym.Assume(vLE(head, 8, 8) == logical)
	vsym.Assume(head[16] == byte(casblob.Zstandard))
	vsym.Assume(vLE(head, 17, 4) == 2<<20) // one chunk
	vsym.Assume(vLE(head, 21, 8) == 2)
	vsym.Assume(vLE(head, 29, 8) == 45)
	vsym.Assume(vLE(head, 37, 8) == tableEnd)
	bs := &vmodel.MStream{Name: "backend", L: streamLen, FailAt: -1, Head: head}
	px.getRC, px.getSize = bs, logical
	d.codec.Arbitrary = true
	req := int64(-1)
	if vsym.Choose("sizeKnown", 2) == 1 {
		req = logical
	}
	var rc io.ReadCloser
	var err error
	if vsym.Choose("asZstd", 2) == 1 {
		rc, _, err = c.GetZstd(context.Background(), vHashA, req, 0)
	} else {
		rc, _, err = c.Get(context.Background(), cache.CAS, vHashA, req, 0)
	}
	vsym.Reach("proxyget-short-returned")
	_, el := c.lru.Get(cache.LookupKey(cache.CAS, vHashA))
	if rc != nil && err == nil {
		vsym.Reach("proxyget-short-hit")
		vsym.Assert(streamLen == tableEnd, "proxyget/C12-truncated-or-overlong-compressed-stream-is-not-a-hit")
		_ = rc.Close()
	} else {
		vsym.Reach("proxyget-short-no-hit")
		vsym.Assert(streamLen != tableEnd, "proxyget/C12-complete-compressed-stream-is-a-hit")
	}
	if el != nil {
		vsym.Assert(streamLen == tableEnd, "proxyget/C12-truncated-compressed-stream-was-cached")
	}
	d.drain()
	d.checkDirEqualsIndex("proxyget-short/C12")
}
