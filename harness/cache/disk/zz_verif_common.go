package disk

// Shared harness helpers: arbitrary valid LRU pre-state, disk cache builder,
// backend stub, directory-equals-index check.

import (
	"context"
	"io"

	"golang.org/x/sync/semaphore"

	"github.com/buchgr/bazel-remote/v2/cache"
	"github.com/buchgr/bazel-remote/v2/cache/disk/casblob"
	"github.com/buchgr/bazel-remote/v2/cache/disk/zstdimpl"
	"github.com/buchgr/bazel-remote/v2/zzverif/vmodel"
	"github.com/buchgr/bazel-remote/v2/zzverif/vsym"
)

const vmaxSz = int64(1) << 61

// independent rounding specification: r is the least multiple of 4096 >= x
func vAssumeRound(x, r int64) {
	vsym.Assume(r >= x)
	vsym.Assume(r-x < 4096)
	vsym.Assume(r&4095 == 0)
}

func vAssumeSize(x int64) {
	vsym.Assume(x >= 0)
	vsym.Assume(x < vmaxSz)
}

type vEv struct {
	key string
	it  lruItem
}

var vKeys = []string{"cas/k0", "cas/k1", "cas/k2", "cas/k3", "cas/k4", "cas/k5", "cas/k6"}
var vRandoms = []string{"101", "102", "103", "104", "105", "106", "107", "108", "109"}

type vState struct {
	c       *SizedLRU
	keys    []string
	n       int
	items   []lruItem
	rd, ru  []int64 // independent roundings of sizeOnDisk / size
	evicted []vEv
	backlogAtUnlink []int64 // backlog counter observed when each file is being unlinked
	cur0    int64
	res0    int64
	unc0    int64
	q0      int64
}

// vPre builds an arbitrary valid state with n entries; entry 0 is the most
// recently used (list front), entry n-1 the least recently used.
func vPre(n int) *vState {
	l := new(SizedLRU)
	return vPreInto(l, n, vKeys, nil)
}

// vPreInto builds the state in *c. legacy[i] (optional) marks entry i as a
// raw ".v1" CAS file.
func vPreInto(c *SizedLRU, n int, keys []string, legacy []bool) *vState {
	st := &vState{n: n, keys: keys}
	maxSize := vsym.Int64("max")
	// NewSizedLRU only so that the metric fields are non-nil in native replays
	*c = NewSizedLRU(maxSize, func(k string, v lruItem) {
		st.evicted = append(st.evicted, vEv{k, v})
		st.backlogAtUnlink = append(st.backlogAtUnlink, c.queuedEvictionsSize.Load())
	}, 0)
	st.c = c
	vsym.Assume(c.maxSize > 0)
	vsym.Assume(c.maxSize < vmaxSz)
	st.items = make([]lruItem, n)
	st.rd = make([]int64, n)
	st.ru = make([]int64, n)
	sumD, sumU := int64(0), int64(0)
	for i := 0; i < n; i++ {
		st.items[i] = lruItem{size: vsym.Int64("size"), sizeOnDisk: vsym.Int64("disk"), random: vRandoms[i]}
		if legacy != nil {
			st.items[i].legacy = legacy[i]
		}
		st.rd[i] = vsym.Int64("rdisk")
		st.ru[i] = vsym.Int64("rsize")
		vAssumeSize(st.items[i].size)
		vAssumeSize(st.items[i].sizeOnDisk)
		vAssumeRound(st.items[i].sizeOnDisk, st.rd[i])
		vAssumeRound(st.items[i].size, st.ru[i])
		e := c.ll.PushBack(&entry{keys[i], st.items[i]})
		c.cache[keys[i]] = e
		sumD += st.rd[i]
		sumU += st.ru[i]
		vsym.Assume(sumD < vmaxSz)
		vsym.Assume(sumU < vmaxSz)
	}
	c.reservedSize = vsym.Int64("reserved")
	vAssumeSize(c.reservedSize)
	c.currentSize = sumD + c.reservedSize
	vsym.Assume(c.currentSize <= c.maxSize)
	c.uncompressedSize = sumU
	st.cur0, st.res0, st.unc0 = c.currentSize, c.reservedSize, c.uncompressedSize
	return st
}

func (st *vState) setBacklog() {
	st.q0 = vsym.Int64("queued")
	vAssumeSize(st.q0)
	st.c.queuedEvictionsSize.Store(st.q0)
}

// drain runs the real background remover once if something is queued.
func (st *vState) drain() {
	c := st.c
	select {
	case q := <-c.queuedEvictionsChan:
		c.queuedEvictionsChan <- q
		c.performQueuedEvictions()
	default:
	}
}

// checkBacklogDuringUnlink: while a file is being deleted it still counts as
// backlog (C17: "evicted-but-not-yet-deleted files").
func (st *vState) checkBacklogDuringUnlink(tag string) {
	rest := st.q0
	for j := len(st.evicted) - 1; j >= 0; j-- {
		rest += st.evicted[j].it.sizeOnDisk
		if j < len(st.backlogAtUnlink) {
			vsym.Assert(st.backlogAtUnlink[j] == rest, tag+"/C17-file-being-deleted-still-counts-as-backlog")
		}
	}
}

func (st *vState) idx(key string) int {
	for i := 0; i < st.n; i++ {
		if st.keys[i] == key {
			return i
		}
	}
	return -1
}

// checkIndex recomputes the sums from what is in the index now and checks the
// representation invariant. newKey (if non-empty) is expected with roundings
// nrd/nru. Returns the number of entries.
func (st *vState) checkIndex(newKey string, nrd, nru int64, tag string) int {
	c := st.c
	sumD, sumU, cnt := int64(0), int64(0), 0
	for e := c.ll.Front(); e != nil; e = e.Next() {
		kv := e.Value.(*entry)
		if kv.key == newKey {
			sumD += nrd
			sumU += nru
		} else {
			i := st.idx(kv.key)
			vsym.Assert(i >= 0, tag+"/index-holds-unknown-entry")
			if i >= 0 {
				sumD += st.rd[i]
				sumU += st.ru[i]
				vsym.Assert(kv.value == st.items[i], tag+"/entry-value-intact")
			}
		}
		vsym.Assert(c.cache[kv.key] == e, tag+"/map-list-consistent")
		cnt++
	}
	vsym.Assert(len(c.cache) == cnt, tag+"/map-size-equals-list-size")
	vsym.Assert(c.ll.Len() == cnt, tag+"/list-len")
	vsym.Assert(c.currentSize == sumD+c.reservedSize, tag+"/C03-currentSize-is-sum-plus-reserved")
	vsym.Assert(c.uncompressedSize == sumU, tag+"/C03-logical-size-is-sum")
	vsym.Assert(c.currentSize <= c.maxSize, tag+"/C03-currentSize-le-maxSize")
	vsym.Assert(c.reservedSize >= 0, tag+"/C03-reserved-nonneg")
	return cnt
}

// checkOrder: the survivors other than skipKey keep their relative order, and
// the evicted ones (other than the replaced version of skipKey) are exactly a
// suffix of the recency list, evicted back to front.
func (st *vState) checkEvictionOrder(skipKey string, evs []vEv, tag string) {
	c := st.c
	// expected eviction order: n-1, n-2, ... skipping skipKey
	j := st.n - 1
	for _, ev := range evs {
		if j >= 0 && st.keys[j] == skipKey {
			j--
		}
		ok := j >= 0 && ev.key == st.keys[j]
		vsym.Assert(ok, tag+"/C05-evicted-in-LRU-order-from-the-back")
		if ok {
			vsym.Assert(ev.it == st.items[j], tag+"/evicted-item-is-the-indexed-one")
		}
		j--
	}
	// survivors: 0..j in order (skipping skipKey), after an optional front element skipKey
	e := c.ll.Front()
	if e != nil && e.Value.(*entry).key == skipKey {
		e = e.Next()
	}
	for i := 0; i <= j; i++ {
		if st.keys[i] == skipKey {
			continue
		}
		ok := e != nil && e.Value.(*entry).key == st.keys[i]
		vsym.Assert(ok, tag+"/C05-survivors-keep-recency-order")
		if e != nil {
			e = e.Next()
		}
	}
	vsym.Assert(e == nil, tag+"/C05-no-extra-survivor")
}

func vN(max int) int { return vsym.Choose("n", max+1) }


// ---------------------------------------------------------------- disk cache

const (
	vHashA = "aaaaaaaaaaaaaaaaaaaaaaaaaaaaaaaaaaaaaaaaaaaaaaaaaaaaaaaaaaaaaaaa"
	vHashB = "bbbbbbbbbbbbbbbbbbbbbbbbbbbbbbbbbbbbbbbbbbbbbbbbbbbbbbbbbbbbbbbb"
	vHashC = "cccccccccccccccccccccccccccccccccccccccccccccccccccccccccccccccc"
	vHashD = "dddddddddddddddddddddddddddddddddddddddddddddddddddddddddddddddd"
	vDir   = "/cache"
)

var vHashes = []string{vHashB, vHashC, vHashD,
	"1111111111111111111111111111111111111111111111111111111111111111",
	"2222222222222222222222222222222222222222222222222222222222222222",
	"3333333333333333333333333333333333333333333333333333333333333333",
	"4444444444444444444444444444444444444444444444444444444444444444",
	"5555555555555555555555555555555555555555555555555555555555555555"}

// vProxy is an arbitrary backend.
type vProxy struct {
	puts     []vProxyPut
	gets     int
	contains int
	// Get behaviour (set by the harness)
	getRC    io.ReadCloser
	getSize  int64
	getErr   error
	hasBlob  bool
	hasSize  int64
	hasByHash map[string]bool // when non-nil overrides hasBlob per hash
	asked     []string
}

type vProxyPut struct {
	kind        cache.EntryKind
	hash        string
	logicalSize int64
	sizeOnDisk  int64
	rc          io.ReadCloser
}

func (p *vProxy) Put(ctx context.Context, kind cache.EntryKind, hash string, logicalSize int64, sizeOnDisk int64, rc io.ReadCloser) {
	p.puts = append(p.puts, vProxyPut{kind, hash, logicalSize, sizeOnDisk, rc})
}

func (p *vProxy) Get(ctx context.Context, kind cache.EntryKind, hash string, size int64) (io.ReadCloser, int64, error) {
	p.gets++
	return p.getRC, p.getSize, p.getErr
}

func (p *vProxy) Contains(ctx context.Context, kind cache.EntryKind, hash string, size int64) (bool, int64) {
	p.contains++
	p.asked = append(p.asked, hash)
	if p.hasByHash != nil {
		return p.hasByHash[hash], p.hasSize
	}
	return p.hasBlob, p.hasSize
}

type vDisk struct {
	c     *diskCache
	st    *vState
	px    *vProxy
	codec *zstdimpl.VCodec
	kinds []cache.EntryKind
	files []*vmodel.MFile // file of entry i
}

// vNewDisk: a disk cache over the file-system model whose index is an
// arbitrary valid state with n entries (keys vHashes[i] of kind kinds[i]),
// each with its file in place.
func vNewDisk(n int, mode casblob.CompressionType, kinds []cache.EntryKind, withProxy bool) *vDisk {
	return vNewDiskKeys(n, mode, kinds, vHashes, withProxy)
}

// vNewDiskKeys: entry i has key (kinds[i], hashes[i]).
func vNewDiskKeys(n int, mode casblob.CompressionType, kinds []cache.EntryKind, hashes []string, withProxy bool) *vDisk {
	vmodel.ResetFS()
	d := &vDisk{kinds: kinds}
	d.codec = &zstdimpl.VCodec{FileID: "none"}
	c := &diskCache{
		dir:              vDir,
		storageMode:      mode,
		zstd:             d.codec,
		maxBlobSize:      vsym.Int64("maxBlobSize"),
		maxProxyBlobSize: vsym.Int64("maxProxyBlobSize"),
		diskWaitSem:      semaphore.NewWeighted(5000),
	}
	vsym.Assume(c.maxBlobSize > 0)
	vsym.Assume(c.maxProxyBlobSize > 0)
	if withProxy {
		d.px = &vProxy{}
		c.proxy = d.px
	}
	d.c = c
	keys := make([]string, n)
	legacy := make([]bool, n)
	for i := 0; i < n; i++ {
		keys[i] = cache.LookupKey(kinds[i], hashes[i])
		legacy[i] = kinds[i] == cache.CAS && mode == casblob.Identity
	}
	d.st = vPreInto(&c.lru, n, keys, legacy)
	// the eviction callback of loadExistingFiles
	c.lru.onEvict = func(key string, value lruItem) {
		d.st.evicted = append(d.st.evicted, vEv{key, value})
		f := c.getElementPath(key, value)
		c.removeFile(f)
	}
	for i := 0; i < n; i++ {
		it := d.st.items[i]
		vsym.Assume(it.sizeOnDisk > 0)
		vsym.Assume(it.size > 0)
		if kinds[i] != cache.CAS || mode == casblob.Identity {
			vsym.Assume(it.size == it.sizeOnDisk)
		}
		mf := vmodel.FS.AddFile(c.getElementPath(keys[i], it), nil, it.sizeOnDisk)
		d.files = append(d.files, mf)
	}
	return d
}

// drain lets the background remover delete everything queued.
func (d *vDisk) drain() { d.st.drain() }

// files the backend stub still holds open
func (d *vDisk) pxOpen() []int {
	var r []int
	if d.px != nil {
		for i, p := range d.px.puts {
			if p.rc != nil {
				r = append(r, i)
			}
		}
	}
	return r
}

// vLE: little-endian integer of n bytes at off.
func vLE(b []byte, off, n int) int64 {
	v := int64(0)
	for i := 0; i < n; i++ {
		v |= int64(b[off+i]) << (8 * uint(i))
	}
	return v
}

// checkDirEqualsIndex: C04 at quiescence.
func (d *vDisk) checkDirEqualsIndex(tag string) {
	c := d.c
	// every indexed entry has its file, of the recorded size
	cnt := 0
	for e := c.lru.ll.Front(); e != nil; e = e.Next() {
		kv := e.Value.(*entry)
		p := c.getElementPath(kv.key, kv.value)
		mf := vmodel.FS.Lookup(p)
		vsym.Assert(mf != nil, tag+"/C04-indexed-entry-has-its-file")
		if mf != nil {
			vsym.Assert(mf.Size == kv.value.sizeOnDisk, tag+"/C04-file-has-the-recorded-size")
		}
		cnt++
	}
	// no other file
	vsym.Assert(len(vmodel.FS.Files) == cnt, tag+"/C04-no-file-besides-the-indexed-entries")
	// (readers handed over to the backend stub are the backend's to close)
	vsym.Assert(vmodel.FS.OpenCount == len(d.pxOpen()), tag+"/C14-no-open-file")
}

var _ = context.Background
var _ io.Reader
var _ = semaphore.NewWeighted
var _ cache.EntryKind
var _ casblob.CompressionType
var _ *zstdimpl.VCodec
var _ = vmodel.ResetFS
