package disk

// H9: start-up on an existing cache directory: the real scanDir /
// loadExistingFiles (worker goroutines, errgroup, sort by atime, background
// remover) on the file-system model. Serves C09 (keeps what fits, evicts
// oldest first, never fails), C03/C04 after restart.

import (
	"github.com/buchgr/bazel-remote/v2/cache/disk/casblob"
	"github.com/buchgr/bazel-remote/v2/cache/disk/zstdimpl"
	"github.com/buchgr/bazel-remote/v2/zzverif/vmodel"
	"github.com/buchgr/bazel-remote/v2/zzverif/vsym"
)

type vLoadFile struct {
	mf      *vmodel.MFile
	key     string
	logical int64 // logical size the loader must derive
	legacy  bool
	random  string
	rd      int64 // independent rounding of the file size
}

func vLoadDirs() {
	vmodel.ResetFS()
	for _, d := range []string{vDir, vDir + "/ac.v2", vDir + "/cas.v2", vDir + "/raw.v2",
		vDir + "/ac.v2/aa", vDir + "/cas.v2/bb", vDir + "/cas.v2/cc", vDir + "/raw.v2/dd"} {
		vmodel.FS.AddDir(d)
	}
}

// vLoad: up to three files of different kinds with arbitrary sizes and access
// times; optionally a second file for the same key, a lost+found directory
// and a .DS_Store file.
func vLoad(nFiles int, extras bool, dup int) {
	vLoadDirs()
	var files []*vLoadFile
	add := func(path, key string, logical int64, legacy bool, random string) {
		sz := vsym.Int64("filesize")
		vsym.Assume(sz > 0)
		vsym.Assume(sz < vmaxSz)
		mf := vmodel.FS.AddFile(vDir+"/"+path, nil, sz)
		mf.Atime = vsym.Int64("atime")
		vsym.Assume(mf.Atime >= 0)
		vsym.Assume(mf.Atime < 1<<40)
		f := &vLoadFile{mf: mf, key: key, logical: logical, legacy: legacy, random: random}
		if logical < 0 {
			f.logical = sz // raw files: logical size is the file length
		}
		f.rd = vsym.Int64("rounded")
		vAssumeRound(sz, f.rd)
		files = append(files, f)
	}
	hA := "aa" + vHashA[2:]
	hB := "bb" + vHashB[2:]
	hC := "cc" + vHashC[2:]
	all := []func(){
		func() { add("ac.v2/aa/"+hA+"-111222333", "ac/"+hA, -1, false, "111222333") },
		func() { add("cas.v2/bb/"+hB+"-12345-444555666", "cas/"+hB, 12345, false, "444555666") },
		func() { add("cas.v2/cc/"+hC+"-777888999.v1", "cas/"+hC, -1, true, "777888999") },
	}
	n := nFiles
	if dup != 2 {
		n = 1 + vsym.Choose("files", nFiles)
	}
	for i := 0; i < n; i++ {
		all[i]()
	}
	dupOf := -1
	switch dup {
	case 1:
		// a second file for the key of file 0 (left behind by an interrupted overwrite)
		add("ac.v2/aa/"+hA+"-999888777", "ac/"+hA, -1, false, "999888777")
		dupOf = 0
	case 2:
		// a second compressed file for the CAS key of file 1: logical size
		// (from the name) and file length differ
		add("cas.v2/bb/"+hB+"-12345-222333444", "cas/"+hB, 12345, false, "222333444")
		dupOf = 1
	}
	if extras {
		switch vsym.Choose("extra", 3) {
		case 1:
			vmodel.FS.AddDir(vDir + "/lost+found")
			vmodel.FS.AddDir(vDir + "/cas.v2/lost+found")
		case 2:
			vmodel.FS.AddFile(vDir+"/.DS_Store", nil, 10)
			vmodel.FS.AddFile(vDir+"/cas.v2/.ds_store", nil, 10)
		}
	}
	// distinct access times (the order among equal times is unspecified)
	for i := 0; i < len(files); i++ {
		for j := i + 1; j < len(files); j++ {
			vsym.Assume(files[i].mf.Atime != files[j].mf.Atime)
		}
	}
	maxSize := vsym.Int64("max")
	vsym.Assume(maxSize > 0)
	vsym.Assume(maxSize < vmaxSz)

	c := &diskCache{dir: vDir, storageMode: casblob.Zstandard, zstd: &zstdimpl.VCodec{FileID: "none"}, maxBlobSize: 1 << 40, maxProxyBlobSize: 1 << 40}
	err := c.migrateDirectories()
	vsym.Assert(err == nil, "load/C09-migration-of-a-current-layout-succeeds")
	err = c.loadExistingFiles(maxSize, CacheConfig{diskCache: c})

	vsym.Reach("load-returned")
	vsym.Assert(err == nil, "load/C09-start-up-succeeds-on-any-directory")
	if err != nil {
		return
	}
	// expected survivors: drop files larger than max_size, then keep the
	// maximal set of most recently accessed files that fits
	present := make([]bool, len(files))
	for i, f := range files {
		el := c.lru.cache[f.key] // (not Get: that would change the recency order)
		present[i] = el != nil
		if el != nil && dupOf >= 0 && (i == dupOf || i == len(files)-1) {
			// two files for this key: the entry names exactly one of them
			present[i] = el.Value.(*entry).value.random == f.random
		}
		if present[i] {
			it := el.Value.(*entry).value
			vsym.Assert(it.sizeOnDisk == f.mf.Size, "load/C09-entry-has-the-file-size")
			vsym.Assert(it.size == f.logical, "load/C09-entry-has-the-logical-size")
			vsym.Assert(it.legacy == f.legacy && it.random == f.random, "load/C09-entry-names-its-file")
			vsym.Assert(vmodel.FS.Lookup(f.mf.Path) != nil, "load/C04-kept-entry-has-its-file")
		} else {
			vsym.Reach("load-evicted-or-rejected")
			vsym.Assert(vmodel.FS.Lookup(f.mf.Path) == nil, "load/C04-dropped-file-is-deleted")
		}
	}
	sum := int64(0)
	for i, f := range files {
		if present[i] {
			sum += f.rd
			vsym.Assert(f.rd <= maxSize, "load/C09-file-larger-than-max-size-kept")
		}
	}
	vsym.Assert(c.lru.currentSize == sum, "load/C03-accounting-matches-directory-after-restart")
	vsym.Assert(c.lru.reservedSize == 0, "load/C03-nothing-reserved-after-restart")
	vsym.Assert(sum <= maxSize, "load/C03-within-max-size-after-restart")
	for i, f := range files {
		if present[i] {
			continue
		}
		if f.rd > maxSize {
			vsym.Reach("load-file-larger-than-cache")
			continue
		}
		if dupOf >= 0 && (i == dupOf || i == len(files)-1) {
			other := files[len(files)-1]
			oi := len(files) - 1
			if i == oi {
				other, oi = files[dupOf], dupOf
			}
			if other.mf.Atime > f.mf.Atime && other.rd <= maxSize {
				// replaced by the newer file of the same key (which fits on its own)
				vsym.Reach("load-older-duplicate-replaced")
				continue
			}
		}
		// a dropped file that would fit on its own: every kept file is newer,
		// and it did not fit next to the files newer than it
		newer := int64(0)
		for j, g := range files {
			if j != i && g.rd <= maxSize {
				if g.mf.Atime > f.mf.Atime {
					newer += g.rd
					vsym.Assert(vsym.Implies(vsym.Not(present[j]), true), "load/noop")
				} else {
					vsym.Assert(!present[j], "load/C09-older-file-kept-while-newer-evicted")
				}
			}
		}
		vsym.Assert(newer+f.rd > maxSize, "load/C09-evicted-although-it-fitted-next-to-the-newer-files")
	}
	// later evictions follow access time: the LRU list is ordered by atime
	var prev *vLoadFile
	for e := c.lru.ll.Front(); e != nil; e = e.Next() {
		var cur *vLoadFile
		for _, f := range files {
			if f.key == e.Value.(*entry).key && f.random == e.Value.(*entry).value.random {
				cur = f
			}
		}
		vsym.Assert(cur != nil, "load/index-holds-unknown-entry")
		if prev != nil && cur != nil {
			vsym.Assert(prev.mf.Atime > cur.mf.Atime, "load/C09-recency-order-is-access-time-order")
		}
		prev = cur
	}
}

func VerifLoad2()      { vLoad(2, false, 0) }
func VerifLoad3()      { vLoad(3, false, 0) }
func VerifLoadExtras() { vLoad(1, true, 0) }
func VerifLoadDup()    { vLoad(2, false, 1) }
func VerifLoadDupCas() { vLoad(2, false, 2) }
