package disk

// H3: diskCache.Put on the file-system model, every stream behaviour, every
// relation of sizes, from an arbitrary valid index state. Serves C01, C03,
// C04, C12 (hand-over to the backend), C17, C18.

import (
	"context"
	"errors"

	"github.com/buchgr/bazel-remote/v2/cache"
	"github.com/buchgr/bazel-remote/v2/cache/disk/casblob"
	"github.com/buchgr/bazel-remote/v2/zzverif/vmodel"
	"github.com/buchgr/bazel-remote/v2/zzverif/vsym"
)

var vErrStream = errors.New("stream fault")

type vUpload struct {
	size int64
	st   *vmodel.MStream
	bl   *vmodel.BlobSpec
}

func vArbitraryUpload(hash string, maxSize int64, short int) *vUpload {
	u := &vUpload{}
	u.size = vsym.Int64("size")
	vsym.Assume(u.size <= maxSize)
	vsym.Assume(u.size >= -1)
	l := vsym.Int64("L")
	vsym.Assume(l >= 0)
	vsym.Assume(l <= maxSize+(2<<20))
	nb := vsym.Int64("nB")
	vsym.Assume(nb >= 1) // the declared hash is not the hash of the empty blob
	vsym.Assume(nb <= maxSize+(2<<20))
	d := vsym.Int64("d")
	vsym.Assume(d >= 0)
	fail := vsym.Int64("failAt")
	vsym.Assume(fail >= -1)
	vsym.Assume(fail <= l)
	u.st = &vmodel.MStream{Name: "upload", L: l, FailAt: fail, Err: vErrStream, Short: short}
	u.bl = &vmodel.BlobSpec{Stream: "upload", Hash: hash, N: nb, D: d}
	vmodel.Blobs = []*vmodel.BlobSpec{u.bl}
	return u
}

func (u *vUpload) noFault() bool { return vsym.Or(u.st.FailAt < 0, u.st.FailAt >= u.st.L) }

// good: the stream delivers exactly the declared blob (CAS).
func (u *vUpload) good() bool {
	a := vsym.And(u.st.L == u.size, u.bl.N == u.size)
	return vsym.And(vsym.And(a, u.bl.D >= u.bl.N), u.noFault())
}

// goodRaw: for AC/RAW only the length is checked by the disk layer.
func (u *vUpload) goodRaw() bool { return vsym.And(u.st.L == u.size, u.noFault()) }

func vPut(kind cache.EntryKind, mode casblob.CompressionType, maxN int, maxChunks int64, withProxy bool) {
	n := vsym.Choose("n", maxN+1)
	kinds := []cache.EntryKind{kind, cache.CAS, cache.AC}
	d := vNewDisk(n, mode, kinds, withProxy)
	c := d.c
	st := d.st
	st.setBacklog()
	c.lru.maxSizeHardLimit = vsym.Int64("hard")
	vsym.Assume(c.lru.maxSizeHardLimit < vmaxSz)
	vsym.Assume(c.lru.maxSizeHardLimit > -vmaxSz)
	hard := c.lru.maxSizeHardLimit
	// the key is fresh or (if n > 0) the key of entry 0
	existing := false
	hash := vHashA
	if n > 0 && vsym.Choose("overwrite", 2) == 1 {
		existing = true
		hash = vHashes[0]
	}
	u := vArbitraryUpload(hash, maxChunks<<20, 0)
	key := cache.LookupKey(kind, hash)
	vsym.Fact("kind", kind.String())
	vsym.Fact("mode", int(mode))

	err := c.Put(context.Background(), kind, hash, u.size, u.st)

	// ---- C03: reservation returned on every path
	vsym.Assert(c.lru.reservedSize == st.res0, "put/C03-reserved-returns-to-previous-level")
	vsym.Assert(vmodel.FS.OpenCount == len(d.pxOpen()), "put/C14-no-open-file-except-the-one-handed-to-the-backend")

	emptyCAS := kind == cache.CAS && hash == emptySha256 // never true here (hash A/B)
	_ = emptyCAS
	ok := u.good()
	if kind != cache.CAS {
		ok = u.goodRaw()
	}
	if err != nil {
		vsym.Reach("put-refused")
		// nothing stored, index entry for the key unchanged, no file left behind
		d.drain()
		cnt := st.checkIndex("", 0, 0, "put-refused")
		if cnt == n {
			vsym.Reach("put-refused-index-untouched")
		}
		d.checkDirEqualsIndex("put-refused/C01-C12")
		if existing {
			_, el := c.lru.Get(key)
			if el != nil {
				vsym.Assert(el.Value.(*entry).value == st.items[0], "put/refused-upload-leaves-previous-version")
			}
		}
		// (a verified blob may already have been handed to the backend when
		// the commit is refused for space; the property does not forbid that)
		// refused only for a stated reason
		tooBig := u.size > c.maxBlobSize
		resRefuse := vsym.Or(vsym.Or(u.size > c.lru.maxSize, u.size+st.res0 > c.lru.maxSize), vsym.And(hard > 0, st.cur0+st.q0+u.size > hard))
		reason := vsym.Or(vsym.Or(vsym.Not(ok), u.size < 0), vsym.Or(tooBig, resRefuse))
		if ce, isCE := err.(*cache.Error); isCE && ce.Code == 507 {
			vsym.Reach("put-refused-507")
			vsym.Assert(vsym.And(u.size > 0, vsym.Or(u.size+st.res0 > c.lru.maxSize, vsym.And(hard > 0, st.cur0+st.q0+u.size > hard))), "put/C17-507-only-for-lack-of-space")
			vsym.Assert(len(st.evicted) == 0, "put/C17-refusal-for-overload-evicts-nothing")
		}
		if kind == cache.CAS && mode == casblob.Zstandard {
			// the on-disk size of a compressed blob is arbitrary, so commit may
			// also refuse for space: covered by the LRU step; not asserted here
			return
		}
		// commit refuses what does not fit in whole 4 KiB blocks
		rsz := vsym.Int64("rounded-size")
		vAssumeRound(u.size, rsz)
		// (when the key exists its old version may or may not have been evicted
		// by the reservation; the weaker bound without the old version is used)
		addRefuse := vsym.Or(rsz > c.lru.maxSize, st.res0+rsz > c.lru.maxSize)
		vsym.Assert(vsym.Or(reason, addRefuse), "put/C01-well-formed-upload-within-limits-is-accepted")
		return
	}
	vsym.Reach("put-accepted")
	vsym.Assert(u.size >= 0, "put/negative-size-accepted")
	vsym.Assert(u.size <= c.maxBlobSize, "put/C18-blob-larger-than-max-blob-size-accepted")
	vsym.Assert(ok, "put/C01-accepted-only-if-stream-is-exactly-the-declared-blob")
	if kind == cache.CAS {
		vsym.Assert(u.st.L == u.size, "put/C01-accepted-although-stream-length-differs")
		vsym.Assert(u.bl.D >= u.bl.N, "put/C01-accepted-although-bytes-differ")
		vsym.Assert(u.bl.N == u.size, "put/C01-accepted-although-declared-size-is-wrong")
	}
	if u.size == 0 {
		vsym.Reach("put-accepted-empty")
	}
	// the entry is indexed with the declared size and the size of its file
	it, el := c.lru.Get(key)
	present := el != nil
	if !present {
		// only possible when an overwrite could not stay next to the reservations
		vsym.Assert(existing, "put/C01-accepted-blob-is-present")
	}
	d.drain()
	if present {
		vsym.Assert(it.size == u.size, "put/indexed-with-declared-size")
		p := c.getElementPath(key, it)
		mf := vmodel.FS.Lookup(p)
		vsym.Assert(mf != nil, "put/C04-accepted-entry-has-its-file")
		if mf != nil {
			vsym.Assert(mf.Size == it.sizeOnDisk, "put/C04-file-has-recorded-size")
			if kind != cache.CAS || mode == casblob.Identity {
				vsym.Assert(it.sizeOnDisk == u.size, "put/raw-file-has-logical-size")
				okE := len(mf.Ext) <= 1
				vsym.Assert(okE, "put/raw-file-is-one-run")
				if okE && len(mf.Ext) == 1 {
					e := mf.Ext[0]
					vsym.Assert(vsym.And(e.Src == "upload", e.SrcOff == 0), "put/C01-file-holds-the-uploaded-bytes")
					vsym.Assert(e.Len == u.size, "put/C01-file-holds-all-uploaded-bytes")
				}
			}
			vsym.Assert(mf.Synced || u.size == 0, "put/C08-file-synced-before-commit")
		}
		vsym.Assert(it.legacy == (kind == cache.CAS && mode == casblob.Identity), "put/legacy-flag")
	}
	// accounting and directory
	var rd, ru int64
	if present {
		rd, ru = vsym.Int64("newrd"), vsym.Int64("newru")
		vAssumeRound(it.sizeOnDisk, rd)
		vAssumeRound(it.size, ru)
		st.checkIndex(key, rd, ru, "put")
	} else {
		st.checkIndex("", 0, 0, "put-self-evicted")
	}
	d.checkDirEqualsIndex("put")
	if existing && present {
		// the previous version's file is gone (it was queued and removed)
		old := c.getElementPath(key, st.items[0])
		vsym.Assert(vmodel.FS.Lookup(old) == nil || old == c.getElementPath(key, it), "put/C04-predecessor-file-removed")
	}
	if d.px != nil {
		okP := len(d.px.puts) == 1
		vsym.Assert(okP, "put/C12-accepted-upload-handed-to-backend-exactly-once")
		if okP {
			pp := d.px.puts[0]
			vsym.Assert(pp.kind == kind && pp.hash == hash, "put/C12-backend-gets-same-key")
			vsym.Assert(pp.logicalSize == u.size, "put/C12-backend-gets-logical-size")
			if present {
				vsym.Assert(pp.sizeOnDisk == it.sizeOnDisk, "put/C12-backend-gets-size-on-disk")
			}
			vsym.Assert(pp.rc != nil, "put/C12-backend-gets-a-reader")
		}
	}
}

func VerifPutCasZstd()        { vPut(cache.CAS, casblob.Zstandard, 1, 2, false) }
func VerifPutCasZstdProxy()   { vPut(cache.CAS, casblob.Zstandard, 2, 2, true) }
func VerifPutCasRaw()         { vPut(cache.CAS, casblob.Identity, 1, 2, false) }
func VerifPutCasRawProxy()    { vPut(cache.CAS, casblob.Identity, 2, 2, true) }
func VerifPutAC()             { vPut(cache.AC, casblob.Zstandard, 1, 2, false) }
func VerifPutRawProxy()       { vPut(cache.RAW, casblob.Identity, 2, 2, true) }
