package disk

// H1: one inductive step of the size-bounded LRU from an arbitrary valid
// state. Serves C03 (accounting), C05 (LRU order, minimal eviction) and C17
// (hard-limit admission). Everything below the harness functions is the real
// lru.go code.

import (
	"github.com/buchgr/bazel-remote/v2/cache"
	"github.com/buchgr/bazel-remote/v2/zzverif/vsym"
)

// ---------------------------------------------------------------- Add

func vLRUAdd(maxN int) {
	n := vN(maxN)
	st := vPre(n)
	c := st.c
	st.setBacklog()
	ki := vsym.Choose("key", n+1) // existing index, or fresh (== n)
	key := vKeys[ki]
	nv := lruItem{size: vsym.Int64("nsize"), sizeOnDisk: vsym.Int64("ndisk"), random: "new"}
	nrd, nru := vsym.Int64("nrdisk"), vsym.Int64("nrsize")
	vAssumeSize(nv.size)
	vAssumeSize(nv.sizeOnDisk)
	vAssumeRound(nv.sizeOnDisk, nrd)
	vAssumeRound(nv.size, nru)
	oldRd := int64(0)
	if ki < n {
		oldRd = st.rd[ki]
	}
	delta := nrd - oldRd

	ok := c.Add(key, nv)

	// Add's contract: refused iff the item alone, or the item next to the
	// reservations, cannot fit.
	mustRefuse := vsym.Or(nrd > c.maxSize, st.res0+delta > c.maxSize)
	vsym.Assert(ok == vsym.Not(mustRefuse), "add/refused-iff-cannot-fit")
	vsym.Assert(c.reservedSize == st.res0, "add/reserved-unchanged")

	if !ok {
		vsym.Reach("add-refused")
		vsym.Assert(len(c.queuedEvictionsChan) == 0, "add/C05-refusal-evicts-nothing")
		vsym.Assert(c.queuedEvictionsSize.Load() == st.q0, "add/refusal-leaves-backlog")
		cnt := st.checkIndex("", 0, 0, "add-refused")
		vsym.Assert(cnt == n, "add/refusal-keeps-all-entries")
		st.checkEvictionOrder("", nil, "add-refused")
		return
	}
	vsym.Reach("add-accepted")
	// backlog bookkeeping before the remover runs
	qsum := st.q0
	select {
	case q := <-c.queuedEvictionsChan:
		for _, kv := range q {
			qsum += kv.value.sizeOnDisk
		}
		c.queuedEvictionsChan <- q
	default:
	}
	vsym.Assert(c.queuedEvictionsSize.Load() == qsum, "add/C17-backlog-is-sum-of-queued-files")
	st.drain()
	vsym.Assert(c.queuedEvictionsSize.Load() == st.q0, "add/C17-backlog-returns-after-unlink")
	st.checkBacklogDuringUnlink("add")

	evs := st.evicted
	if ki < n {
		// the replaced version is queued for deletion first
		okOld := len(evs) > 0 && evs[0].key == key
		vsym.Assert(okOld, "add/C04-replaced-version-is-queued-for-deletion")
		if okOld {
			vsym.Assert(evs[0].it == st.items[ki], "add/replaced-version-item")
			evs = evs[1:]
		}
	}
	others := n
	if ki < n {
		others = n - 1
	}
	if st.res0+nrd > c.maxSize {
		// Only reachable when an existing key is overwritten by a larger value
		// while reservations are so large that the new version cannot stay
		// next to them: Add accepts (the delta fits) and the eviction loop then
		// removes everything, including the new version.
		vsym.Reach("add-overwrite-evicts-itself")
		vsym.Assert(ki < n, "add/fresh-key-self-evicted")
		cnt := st.checkIndex("", 0, 0, "add-self-evicted")
		vsym.Assert(cnt == 0, "add/self-eviction-empties-the-index")
		okSelf := len(evs) == others+1 && evs[others].key == key
		vsym.Assert(okSelf, "add/C04-self-evicted-version-is-queued-for-deletion")
		if okSelf {
			vsym.Assert(evs[others].it == nv, "add/self-evicted-item")
			st.checkEvictionOrder(key, evs[:others], "add-self-evicted")
		}
		return
	}
	cnt := st.checkIndex(key, nrd, nru, "add")
	st.checkEvictionOrder(key, evs, "add")
	front := c.ll.Front()
	okFront := front != nil && front.Value.(*entry).key == key
	vsym.Assert(okFront, "add/C05-accepted-item-that-fits-is-present-at-front")
	if okFront {
		vsym.Assert(front.Value.(*entry).value == nv, "add/new-value-stored")
	}
	m := len(evs)
	vsym.Assert(cnt == others-m+1, "add/entry-count")
	if m == 0 {
		vsym.Reach("add-no-eviction")
		vsym.Assert(st.cur0+delta <= c.maxSize, "add/C05-no-eviction-means-it-fitted")
	} else {
		vsym.Reach("add-evicted")
		// minimality: with the last evicted entry kept, it would not have fitted
		last := st.idx(evs[m-1].key)
		if last >= 0 {
			vsym.Assert(c.currentSize+st.rd[last] > c.maxSize, "add/C05-eviction-is-minimal")
		}
	}
	if m > 1 {
		vsym.Reach("add-evicted-several")
	}
}

func VerifLRUAdd3() { vLRUAdd(3) }
func VerifLRUAdd4() { vLRUAdd(4) }

// ---------------------------------------------------------------- Reserve

func vLRUReserve(maxN int) {
	n := vN(maxN)
	st := vPre(n)
	c := st.c
	st.setBacklog()
	c.maxSizeHardLimit = vsym.Int64("hard")
	vsym.Assume(c.maxSizeHardLimit < vmaxSz)
	vsym.Assume(c.maxSizeHardLimit > -vmaxSz)
	s := vsym.Int64("s")
	vsym.Assume(s < vmaxSz)
	vsym.Assume(s > -vmaxSz)
	hard := c.maxSizeHardLimit

	err := c.Reserve(s)

	// the specification, over mathematical integers (no wrap inside the domain)
	tooBig := s > c.maxSize
	noRoom := s+st.res0 > c.maxSize
	overLimit := vsym.And(hard > 0, st.cur0+st.q0+s > hard)

	if err != nil {
		vsym.Reach("reserve-refused")
		ce, isCE := err.(*cache.Error)
		vsym.Assert(isCE, "reserve/error-type")
		cnt := st.checkIndex("", 0, 0, "reserve-refused")
		vsym.Assert(cnt == n, "reserve/C17-refusal-evicts-nothing")
		vsym.Assert(len(c.queuedEvictionsChan) == 0, "reserve/C17-refusal-queues-nothing")
		vsym.Assert(c.currentSize == st.cur0, "reserve/refusal-changes-nothing")
		vsym.Assert(c.reservedSize == st.res0, "reserve/refusal-leaves-reserved")
		st.checkEvictionOrder("", nil, "reserve-refused")
		legit := vsym.Or(vsym.Or(s < 0, tooBig), vsym.Or(noRoom, overLimit))
		vsym.Assert(legit, "reserve/C17-refused-only-for-a-stated-reason")
		if isCE {
			// 507 (retryable) exactly for the two space reasons, 400 otherwise
			perm := vsym.Or(s < 0, tooBig)
			vsym.Assert(vsym.Implies(perm, ce.Code == 400), "reserve/permanent-refusal-is-400")
			vsym.Assert(vsym.Implies(vsym.Not(perm), ce.Code == 507), "reserve/C17-overload-refusal-is-507")
		}
		return
	}
	vsym.Reach("reserve-ok")
	if s == 0 {
		vsym.Reach("reserve-zero")
		cnt := st.checkIndex("", 0, 0, "reserve-zero")
		vsym.Assert(cnt == n, "reserve/zero-evicts-nothing")
		vsym.Assert(c.currentSize == st.cur0, "reserve/zero-changes-nothing")
		return
	}
	vsym.Assert(s > 0, "reserve/negative-accepted")
	vsym.Assert(vsym.Not(tooBig), "reserve/larger-than-cache-accepted")
	vsym.Assert(vsym.Not(noRoom), "reserve/C03-accepted-beyond-reservable-room")
	vsym.Assert(vsym.Not(overLimit), "reserve/C17-admitted-only-within-hard-limit")
	vsym.Assert(c.reservedSize == st.res0+s, "reserve/C03-reserved-grows-by-s")
	st.drain()
	vsym.Assert(c.queuedEvictionsSize.Load() == st.q0, "reserve/C17-backlog-returns-after-unlink")
	st.checkBacklogDuringUnlink("reserve")
	cnt := st.checkIndex("", 0, 0, "reserve")
	st.checkEvictionOrder("", st.evicted, "reserve")
	m := len(st.evicted)
	vsym.Assert(cnt == n-m, "reserve/entry-count")
	if m == 0 {
		vsym.Reach("reserve-no-eviction")
		vsym.Assert(st.cur0+s <= c.maxSize, "reserve/C05-no-eviction-means-it-fitted")
	} else {
		vsym.Reach("reserve-evicted")
		last := st.idx(st.evicted[m-1].key)
		if last >= 0 {
			vsym.Assert(c.currentSize+st.rd[last] > c.maxSize, "reserve/C05-eviction-is-minimal")
		}
	}
}

func VerifLRUReserve3() { vLRUReserve(3) }
func VerifLRUReserve4() { vLRUReserve(4) }

// ---------------------------------------------------------------- Unreserve

func VerifLRUUnreserve() {
	n := vN(2)
	st := vPre(n)
	c := st.c
	s := vsym.Int64("s")
	vsym.Assume(s < vmaxSz)
	vsym.Assume(s > -vmaxSz)
	err := c.Unreserve(s)
	if err != nil {
		vsym.Reach("unreserve-refused")
		vsym.Assert(vsym.Or(s < 0, s > st.res0), "unreserve/refused-only-when-invalid")
		vsym.Assert(c.currentSize == st.cur0, "unreserve/refusal-changes-nothing")
		vsym.Assert(c.reservedSize == st.res0, "unreserve/refusal-changes-nothing-res")
	} else {
		vsym.Reach("unreserve-ok")
		vsym.Assert(s >= 0, "unreserve/negative-accepted")
		vsym.Assert(s <= st.res0, "unreserve/C03-more-than-reserved-accepted")
		vsym.Assert(c.reservedSize == st.res0-s, "unreserve/C03-reserved-shrinks-by-s")
	}
	cnt := st.checkIndex("", 0, 0, "unreserve")
	vsym.Assert(cnt == n, "unreserve/evicts-nothing")
}

// ---------------------------------------------------------------- Get

func VerifLRUGet() {
	n := vN(4)
	st := vPre(n)
	c := st.c
	ki := vsym.Choose("key", n+1)
	key := vKeys[ki]
	it, el := c.Get(key)
	if ki < n {
		vsym.Reach("get-hit")
		vsym.Assert(el != nil, "get/hit-found")
		vsym.Assert(it == st.items[ki], "get/returns-indexed-item")
		fr := c.ll.Front()
		vsym.Assert(fr == el, "get/C05-hit-moves-entry-to-front")
		vsym.Assert(fr.Value.(*entry).key == key, "get/front-key")
	} else {
		vsym.Reach("get-miss")
		vsym.Assert(el == nil, "get/miss")
	}
	cnt := st.checkIndex("", 0, 0, "get")
	vsym.Assert(cnt == n, "get/evicts-nothing")
	skip := ""
	if ki < n {
		skip = key
	}
	st.checkEvictionOrder(skip, nil, "get")
	vsym.Assert(c.currentSize == st.cur0, "get/accounting-unchanged")
}

// ---------------------------------------------------------------- Remove

func VerifLRURemove() {
	n := vN(3)
	st := vPre(n)
	c := st.c
	st.setBacklog()
	ki := vsym.Choose("key", n+1)
	key := vKeys[ki]
	how := vsym.Choose("how", 2)
	if how == 0 {
		c.RemoveKey(key)
	} else {
		if ki == n {
			vsym.Stop("RemoveElement needs an element")
		}
		c.RemoveElement(c.cache[key])
	}
	if ki < n {
		vsym.Reach("remove-hit")
		vsym.Assert(c.currentSize == st.cur0-st.rd[ki], "remove/C03-size-shrinks-by-entry")
		vsym.Assert(c.uncompressedSize == st.unc0-st.ru[ki], "remove/C03-logical-shrinks-by-entry")
		vsym.Assert(c.queuedEvictionsSize.Load() == st.q0+st.items[ki].sizeOnDisk, "remove/C17-backlog-grows-by-file")
		st.drain()
		vsym.Assert(c.queuedEvictionsSize.Load() == st.q0, "remove/C17-backlog-returns-after-unlink")
		st.checkBacklogDuringUnlink("remove")
		okEv := len(st.evicted) == 1 && st.evicted[0].key == key
		vsym.Assert(okEv, "remove/C04-file-queued-for-deletion")
		if okEv {
			vsym.Assert(st.evicted[0].it == st.items[ki], "remove/queued-item")
		}
		_, present := c.cache[key]
		vsym.Assert(!present, "remove/key-gone")
		// temporarily forget the removed entry for the index check
		save := st.rd[ki]
		_ = save
		cnt := 0
		sumD := int64(0)
		for e := c.ll.Front(); e != nil; e = e.Next() {
			i := st.idx(e.Value.(*entry).key)
			vsym.Assert(i >= 0 && i != ki, "remove/list-content")
			if i >= 0 {
				sumD += st.rd[i]
			}
			cnt++
		}
		vsym.Assert(cnt == n-1, "remove/entry-count")
		vsym.Assert(len(c.cache) == n-1, "remove/map-count")
		vsym.Assert(c.currentSize == sumD+c.reservedSize, "remove/C03-currentSize-is-sum-plus-reserved")
	} else {
		vsym.Reach("remove-miss")
		cnt := st.checkIndex("", 0, 0, "remove-miss")
		vsym.Assert(cnt == n, "remove/miss-changes-nothing")
		vsym.Assert(c.currentSize == st.cur0, "remove/miss-accounting")
	}
}

// ---------------------------------------------------------------- lemmas

func VerifLRULemmas() {
	x := vsym.Int64("x")
	vsym.Assume(x >= 0)
	vsym.Assume(x < vmaxSz)
	r := roundUp4k(x)
	vsym.Assert(r >= x, "lemma/roundUp4k-ge")
	vsym.Assert(r-x < 4096, "lemma/roundUp4k-least")
	vsym.Assert(r&4095 == 0, "lemma/roundUp4k-multiple")
	// the specification determines r uniquely
	r2 := vsym.Int64("r2")
	vAssumeRound(x, r2)
	vsym.Assert(r2 == r, "lemma/rounding-spec-is-functional")

	a, b, c := vsym.Int64("a"), vsym.Int64("b"), vsym.Int64("c")
	vsym.Assume(a > 0)
	vsym.Assume(b >= 0)
	vsym.Assume(c > 0)
	vsym.Assume(a < vmaxSz)
	vsym.Assume(b < vmaxSz)
	vsym.Assert(sumLargerThan(a, b, c) == (a+b > c), "lemma/sumLargerThan-is-mathematical-sum-compare")
	vsym.Reach("lemmas")

	// base state
	l := NewSizedLRU(vsym.Int64("max"), func(string, lruItem) {}, 0)
	vsym.Assert(l.currentSize == 0, "lemma/new-lru-empty-size")
	vsym.Assert(l.reservedSize == 0, "lemma/new-lru-no-reservation")
	vsym.Assert(l.Len() == 0, "lemma/new-lru-no-entries")
	vsym.Assert(l.uncompressedSize == 0, "lemma/new-lru-logical")
	vsym.Assert(l.queuedEvictionsSize.Load() == 0, "lemma/new-lru-backlog")
}
