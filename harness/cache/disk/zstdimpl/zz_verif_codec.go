package zstdimpl

// Contract stub of the zstd codec (the real codecs are outside every claim):
//  - EncodeAll(x) returns a fresh frame of arbitrary length >= 1 whose identity
//    is the range of bytes x it encodes;
//  - a frame decodes to exactly the bytes it encodes and to nothing else;
//  - frames are self-delimiting and independently decodable.
// It lives in package zstdimpl because the ZstdImpl interface mentions the
// unexported type zstdEncoder.

import (
	"errors"
	"io"

	"github.com/buchgr/bazel-remote/v2/zzverif/vsym"
)

// VEnc records one EncodeAll call: the frame "enc<i>" encodes SrcLen bytes of
// source Src starting at SrcOff.
type VEnc struct {
	Src    string
	SrcOff int64
	SrcLen int64
	Known  bool
	Len    int64 // length of the frame
}

// VCodec knows one stored blob file: its frames lie at Table[i]..Table[i+1]
// of file FileID and decode to logical bytes [i*Chunk, min((i+1)*Chunk, N)).
type VCodec struct {
	FileID string
	Table  []int64
	Chunk  int64
	N      int64

	// Arbitrary: the file is not known to be well formed; DecodeAll and the
	// streaming decoder return any length / any error.
	Arbitrary bool

	Encs        []VEnc
	DecodeCalls int
	OpenDecs    int
	Bad         []string // contract violations observed (reads of non-frames etc.)
}

var errCorrupt = errors.New("zstd: corrupt input")

var encNames = []string{"enc0", "enc1", "enc2", "enc3", "enc4", "enc5", "enc6", "enc7"}

func (c *VCodec) Logical() string { return "dec:" + c.FileID }

func (c *VCodec) chunkLen(i int) int64 {
	start := int64(i) * c.Chunk
	rest := c.N - start
	return vsym.Ite64(rest < c.Chunk, rest, c.Chunk)
}

func (c *VCodec) EncodeAll(src, dst []byte) []byte {
	i := len(c.Encs)
	if i >= len(encNames) {
		vsym.Stop("too many EncodeAll calls")
	}
	l := vsym.Int64("enclen")
	vsym.Assume(l >= 1)
	vsym.Assume(l < 1<<40)
	s, off, ok := vsym.Prov(src)
	c.Encs = append(c.Encs, VEnc{Src: s, SrcOff: off, SrcLen: int64(len(src)), Known: ok, Len: l})
	out := vsym.MakeBytes(int(l))
	vsym.Fill(out, int(l), encNames[i], 0)
	return out
}

// DecodeAll succeeds only on exactly one stored frame.
func (c *VCodec) DecodeAll(in []byte) ([]byte, error) {
	c.DecodeCalls++
	if c.Arbitrary {
		if vsym.Choose("decodeAllFails", 2) == 1 {
			return nil, errCorrupt
		}
		n := vsym.Int64("declen")
		vsym.Assume(n >= 0)
		vsym.Assume(n < 1<<40)
		out := vsym.MakeBytes(int(n))
		vsym.Fill(out, int(n), c.Logical(), 0)
		return out, nil
	}
	s, off, ok := vsym.Prov(in)
	if !ok || s != c.FileID {
		c.Bad = append(c.Bad, "DecodeAll of bytes that are not from the blob file")
		return nil, errCorrupt
	}
	for i := 0; i+1 < len(c.Table); i++ {
		if off == c.Table[i] {
			if int64(len(in)) != c.Table[i+1]-c.Table[i] {
				return nil, errCorrupt
			}
			n := c.chunkLen(i)
			out := vsym.MakeBytes(int(n))
			vsym.Fill(out, int(n), c.Logical(), int64(i)*c.Chunk)
			return out, nil
		}
	}
	return nil, errCorrupt
}

type vDecoder struct {
	c      *VCodec
	in     io.Reader
	inited bool
	bad    bool
	pos    int64 // logical position
	closed bool
}

// GetDecoder: a streaming decoder over in, which must be positioned at a
// frame boundary of the blob file and deliver the file to its end.
func (c *VCodec) GetDecoder(in io.ReadCloser) (io.ReadCloser, error) {
	c.OpenDecs++
	return &vDecoder{c: c, in: in}, nil
}

func (d *vDecoder) start() {
	d.inited = true
	buf := vsym.MakeBytes(1 << 40)
	n, err := d.in.Read(buf)
	if err != nil && err != io.EOF {
		d.bad = true
		return
	}
	s, off, ok := vsym.Prov(buf[:n])
	if !ok || s != d.c.FileID {
		d.bad = true
		d.c.Bad = append(d.c.Bad, "decoder fed with bytes that are not from the blob file")
		return
	}
	last := len(d.c.Table) - 1
	for i := 0; i < last; i++ {
		if off == d.c.Table[i] {
			if int64(n) != d.c.Table[last]-d.c.Table[i] {
				d.bad = true
				d.c.Bad = append(d.c.Bad, "decoder input does not run to the end of the file")
				return
			}
			d.pos = int64(i) * d.c.Chunk
			return
		}
	}
	d.bad = true
	d.c.Bad = append(d.c.Bad, "decoder input does not start at a frame boundary")
}

func (d *vDecoder) Read(p []byte) (int, error) {
	if d.closed {
		return 0, errors.New("zstd: decoder closed")
	}
	if d.c.Arbitrary {
		if d.inited {
			return 0, io.EOF
		}
		d.inited = true
		if vsym.Choose("decoderFails", 2) == 1 {
			return 0, errCorrupt
		}
		n := vsym.Int64("streamlen")
		vsym.Assume(n >= 0)
		vsym.Assume(n <= int64(len(p)))
		vsym.Fill(p, int(n), d.c.Logical(), 0)
		return int(n), nil
	}
	if !d.inited {
		d.start()
	}
	if d.bad {
		return 0, errCorrupt
	}
	rest := d.c.N - d.pos
	if rest <= 0 {
		return 0, io.EOF
	}
	n := len(p)
	if int64(n) > rest {
		n = int(rest)
	}
	vsym.Fill(p, n, d.c.Logical(), d.pos)
	d.pos += int64(n)
	return n, nil
}

func (d *vDecoder) Close() error {
	if !d.closed {
		d.closed = true
		d.c.OpenDecs--
	}
	return nil
}

type vEncoder struct {
	c   *VCodec
	out io.WriteCloser
}

func (c *VCodec) GetEncoder(out io.WriteCloser) (zstdEncoder, error) {
	return &vEncoder{c, out}, nil
}

func (e *vEncoder) Write(p []byte) (int, error) {
	fr := e.c.EncodeAll(p, nil)
	_, err := e.out.Write(fr)
	return len(p), err
}

func (e *vEncoder) Close() error { return nil }

func (e *vEncoder) ReadFrom(r io.Reader) (int64, error) {
	var total int64
	for i := 0; i < 4; i++ {
		buf := vsym.MakeBytes(1 << 40)
		n, err := r.Read(buf)
		if n > 0 {
			if _, werr := e.Write(buf[:n]); werr != nil {
				return total, werr
			}
			total += int64(n)
		}
		if err == io.EOF {
			return total, nil
		}
		if err != nil {
			return total, err
		}
	}
	vsym.Stop("encoder ReadFrom: more than 4 reads")
	return total, nil
}
