package zstdimpl

// Contract stub of the zstd codec (the real codecs are outside every claim):
//  - EncodeAll(x) returns a fresh frame of arbitrary length >= 1 whose identity
//    is the range of bytes x it encodes;
//  - a frame decodes to exactly the bytes it encodes and to nothing else;
//  - frames are self-delimiting and independently decodable.
// It lives in package zstdimpl because the ZstdImpl interface mentions the
// unexported type zstdEncoder.

import (
	"errors"
	"io"

	"github.com/buchgr/bazel-remote/v2/zzverif/vmodel"
	"github.com/buchgr/bazel-remote/v2/zzverif/vsym"
)

// VEnc records one EncodeAll call: the frame "enc<i>" encodes SrcLen bytes of
// source Src starting at SrcOff.
type VEnc struct {
	Src    string
	SrcOff int64
	SrcLen int64
	Known  bool
	Len    int64 // length of the frame
}

// VCodec knows one stored blob file: its frames lie at Table[i]..Table[i+1]
// of file FileID and decode to logical bytes [i*Chunk, min((i+1)*Chunk, N)).
type VCodec struct {
	FileID string
	Table  []int64
	Chunk  int64
	N      int64

	// Arbitrary: the file is not known to be well formed; DecodeAll and the
	// streaming decoder return any length / any error.
	Arbitrary bool

	Encs        []VEnc
	DecodeCalls int
	OpenDecs    int
	Bad         []string // contract violations observed (reads of non-frames etc.)
}

var errCorrupt = errors.New("zstd: corrupt input")

var encNames = []string{"enc0", "enc1", "enc2", "enc3", "enc4", "enc5", "enc6", "enc7"}

func (c *VCodec) Logical() string { return "dec:" + c.FileID }

func (c *VCodec) chunkLen(i int) int64 {
	start := int64(i) * c.Chunk
	rest := c.N - start
	return vsym.Ite64(rest < c.Chunk, rest, c.Chunk)
}

func (c *VCodec) EncodeAll(src, dst []byte) []byte {
	i := len(c.Encs)
	if i >= len(encNames) {
		vsym.Stop("too many EncodeAll calls")
	}
	l := vsym.Int64("enclen")
	vsym.Assume(l >= 1)
	vsym.Assume(l < 1<<40)
	s, off, ok := vsym.Prov(src)
	c.Encs = append(c.Encs, VEnc{Src: s, SrcOff: off, SrcLen: int64(len(src)), Known: ok, Len: l})
	out := vsym.MakeBytes(int(l))
	vsym.Fill(out, int(l), encNames[i], 0)
	return out
}

// DecodeAll succeeds only on exactly one stored frame.
func (c *VCodec) DecodeAll(in []byte) ([]byte, error) {
	c.DecodeCalls++
	if c.Arbitrary {
		if vsym.Choose("decodeAllFails", 2) == 1 {
			return nil, errCorrupt
		}
		n := vsym.Int64("declen")
		vsym.Assume(n >= 0)
		vsym.Assume(n < 1<<40)
		out := vsym.MakeBytes(int(n))
		vsym.Fill(out, int(n), c.Logical(), 0)
		return out, nil
	}
	s, off, ok := vsym.Prov(in)
	if !ok || s != c.FileID {
		c.Bad = append(c.Bad, "DecodeAll of bytes that are not from the blob file")
		return nil, errCorrupt
	}
	for i := 0; i+1 < len(c.Table); i++ {
		if off == c.Table[i] {
			if int64(len(in)) != c.Table[i+1]-c.Table[i] {
				return nil, errCorrupt
			}
			n := c.chunkLen(i)
			out := vsym.MakeBytes(int(n))
			vsym.Fill(out, int(n), c.Logical(), int64(i)*c.Chunk)
			return out, nil
		}
	}
	return nil, errCorrupt
}

type vDecoder struct {
	c      *VCodec
	in     io.Reader
	inited bool
	bad    bool
	pos    int64 // logical position
	empty  bool
	closed bool
}

// GetDecoder: a streaming decoder over in, which must be positioned at a
// frame boundary of the blob file and deliver the file to its end.
func (c *VCodec) GetDecoder(in io.ReadCloser) (io.ReadCloser, error) {
	c.OpenDecs++
	return &vDecoder{c: c, in: in}, nil
}

func (d *vDecoder) start() {
	d.inited = true
	buf := vsym.MakeBytes(1 << 40)
	n, err := d.in.Read(buf)
	if err != nil && err != io.EOF {
		d.bad = true
		return
	}
	if n == 0 {
		// an empty input is a valid (empty) sequence of frames
		d.pos = d.c.N
		d.empty = true
		return
	}
	s, off, ok := vsym.Prov(buf[:n])
	if !ok || s != d.c.FileID {
		d.bad = true
		d.c.Bad = append(d.c.Bad, "decoder fed with bytes that are not from the blob file")
		return
	}
	last := len(d.c.Table) - 1
	for i := 0; i < last; i++ {
		if off == d.c.Table[i] {
			if int64(n) != d.c.Table[last]-d.c.Table[i] {
				d.bad = true
				d.c.Bad = append(d.c.Bad, "decoder input does not run to the end of the file")
				return
			}
			d.pos = int64(i) * d.c.Chunk
			return
		}
	}
	d.bad = true
	d.c.Bad = append(d.c.Bad, "decoder input does not start at a frame boundary")
}

func (d *vDecoder) Read(p []byte) (int, error) {
	if d.closed {
		return 0, errors.New("zstd: decoder closed")
	}
	if d.c.Arbitrary {
		if d.inited {
			return 0, io.EOF
		}
		d.inited = true
		if vsym.Choose("decoderFails", 2) == 1 {
			return 0, errCorrupt
		}
		n := vsym.Int64("streamlen")
		vsym.Assume(n >= 0)
		vsym.Assume(n <= int64(len(p)))
		vsym.Fill(p, int(n), d.c.Logical(), 0)
		return int(n), nil
	}
	if !d.inited {
		d.start()
	}
	if d.bad {
		return 0, errCorrupt
	}
	rest := d.c.N - d.pos
	if rest <= 0 {
		return 0, io.EOF
	}
	n := len(p)
	if int64(n) > rest {
		n = int(rest)
	}
	vsym.Fill(p, n, d.c.Logical(), d.pos)
	d.pos += int64(n)
	return n, nil
}

func (d *vDecoder) Close() error {
	if !d.closed {
		d.closed = true
		d.c.OpenDecs--
	}
	return nil
}

type vEncoder struct {
	c   *VCodec
	out io.WriteCloser
}

func (c *VCodec) GetEncoder(out io.WriteCloser) (zstdEncoder, error) {
	return &vEncoder{c, out}, nil
}

func (e *vEncoder) Write(p []byte) (int, error) {
	fr := e.c.EncodeAll(p, nil)
	_, err := e.out.Write(fr)
	return len(p), err
}

func (e *vEncoder) Close() error { return nil }

func (e *vEncoder) ReadFrom(r io.Reader) (int64, error) {
	var total int64
	for i := 0; i < 4; i++ {
		buf := vsym.MakeBytes(1 << 40)
		n, err := r.Read(buf)
		if n > 0 {
			if _, werr := e.Write(buf[:n]); werr != nil {
				return total, werr
			}
			total += int64(n)
		}
		if err == io.EOF {
			return total, nil
		}
		if err != nil {
			return total, err
		}
	}
	vsym.Stop("encoder ReadFrom: more than 4 reads")
	return total, nil
}

// ---- independent specification of the v2 CAS blob header (README / casblob docs):
//   bytes 0..3   magic 0x184D2A50 (zstd skippable frame), little endian
//   bytes 4..7   frame size = size of the rest of the header = 21 + 8*numOffsets
//   bytes 8..15  logical (uncompressed) size, int64 LE
//   byte  16     compression type: 0 identity, 1 zstandard
//   bytes 17..20 chunk size, uint32 LE
//   bytes 21..28 number of table entries (chunks + 1), int64 LE
//   then the table: int64 LE file offsets of each chunk, plus the file size.
const (
	VMagic     = 0x184D2A50
	VFixedPart = 29
	VMaxSize   = int64(1) << 40
)

func VPut(b []byte, at int, v uint64, n int) {
	for i := 0; i < n; i++ {
		b[at+i] = byte(v >> (8 * uint(i)))
	}
}

// SpecBlob is an arbitrary file conforming to the v2 specification.
type SpecBlob struct {
	N      int64 // logical size
	Comp   uint8
	Chunk  uint32
	NOff   int
	Table  []int64
	FSize  int64
	Head   []byte
	MF     *vmodel.MFile
	Codec  *VCodec
	HdrLen int64
}

// NewSpecBlob installs at path an arbitrary spec-conformant blob file with
// nOff table entries. For zstandard files the chunk size is any value >= 1
// (not this build's default) and the number of chunks is ceil(n/chunk).
// If n is non-nil the logical size is *n.
func NewSpecBlob(path string, nOff int, comp uint8, n *int64) *SpecBlob {
	b := &SpecBlob{NOff: nOff, Comp: comp}
	if n != nil {
		b.N = *n
	} else {
		b.N = vsym.Int64("n")
	}
	vsym.Assume(b.N > 0)
	vsym.Assume(b.N < VMaxSize)
	b.Chunk = vsym.Uint32("chunk")
	vsym.Assume(b.Chunk >= 1)
	b.HdrLen = int64(VFixedPart + 8*nOff)
	b.Table = make([]int64, nOff)
	b.Table[0] = b.HdrLen
	for i := 1; i < nOff; i++ {
		b.Table[i] = vsym.Int64("off")
		vsym.Assume(b.Table[i] > b.Table[i-1])
		vsym.Assume(b.Table[i] < VMaxSize)
	}
	b.FSize = b.Table[nOff-1]
	chunks := int64(nOff - 1)
	if comp == 1 {
		c := int64(b.Chunk)
		vsym.Assume((chunks-1)*c < b.N)
		vsym.Assume(b.N <= chunks*c)
	} else {
		vsym.Assume(b.FSize == b.HdrLen+b.N)
	}
	b.Head = make([]byte, b.HdrLen)
	VPut(b.Head, 0, VMagic, 4)
	VPut(b.Head, 4, uint64(21+8*nOff), 4)
	VPut(b.Head, 8, uint64(b.N), 8)
	b.Head[16] = comp
	VPut(b.Head, 17, uint64(b.Chunk), 4)
	VPut(b.Head, 21, uint64(nOff), 8)
	for i := 0; i < nOff; i++ {
		VPut(b.Head, VFixedPart+8*i, uint64(b.Table[i]), 8)
	}
	b.MF = vmodel.FS.AddFile(path, b.Head, b.FSize)
	b.Codec = &VCodec{FileID: b.MF.ID, Table: b.Table, Chunk: int64(b.Chunk), N: b.N}
	return b
}

// Seg is one run of bytes delivered by a reader: n bytes of source Src from Off.
type Seg struct {
	Src string
	Off int64
	N   int64
}

// Drain reads rc to EOF with a huge buffer and returns what it delivered.
func Drain(rc io.Reader, maxReads int) ([]Seg, error) {
	var segs []Seg
	for i := 0; i < maxReads; i++ {
		buf := vsym.MakeBytes(vmodel.CopyBuf)
		n, err := rc.Read(buf)
		if n > 0 {
			s, off, ok := vsym.Prov(buf[:n])
			if !ok {
				s = "?"
			}
			segs = append(segs, Seg{s, off, int64(n)})
		}
		if err == io.EOF {
			return segs, nil
		}
		if err != nil {
			return segs, err
		}
	}
	vsym.Stop("reader did not reach EOF within the read bound")
	return nil, nil
}

// AssertRange: the segments are exactly bytes [off, off+n) of source src.
func AssertRange(segs []Seg, src string, off, n int64, tag string) {
	pos := off
	for _, s := range segs {
		vsym.Assert(s.Src == src, tag+"/bytes-from-the-right-source")
		vsym.Assert(s.Off == pos, tag+"/bytes-contiguous-from-offset")
		pos += s.N
	}
	vsym.Assert(pos == off+n, tag+"/delivers-exactly-the-rest-of-the-blob")
}

// AssertZstdStream: segs is a sequence of whole frames of blob b (optionally
// preceded by its header when off == 0, optionally starting with one
// re-encoded partial first chunk) that decodes to logical bytes [off, n).
func AssertZstdStream(b *SpecBlob, codec *VCodec, segs []Seg, off int64, tag string) {
	c := int64(b.Chunk)
	pos := off
	for si, s := range segs {
		if s.Src == b.MF.ID {
			vsym.Assert(si == len(segs)-1, tag+"/zstd-file-tail-is-last")
			vsym.Assert(s.Off+s.N == b.FSize, tag+"/zstd-file-tail-runs-to-end-of-file")
			if s.Off == 0 {
				vsym.Reach("zstd-read-whole-file-with-header")
				vsym.Assert(pos == 0, tag+"/zstd-header-only-at-offset-0")
			} else {
				vsym.Assert(pos%c == 0, tag+"/zstd-tail-starts-on-chunk-edge")
				k := pos / c
				vsym.Assert(k < int64(b.NOff-1), tag+"/zstd-tail-chunk-exists")
				if k < int64(b.NOff-1) {
					vsym.Assert(s.Off == b.Table[k], tag+"/zstd-tail-starts-at-frame-of-that-chunk")
				}
			}
			pos = b.N
		} else {
			ok := len(codec.Encs) == 1 && s.Src == "enc0" && si == 0
			vsym.Assert(ok, tag+"/zstd-first-piece-is-the-one-reencoded-frame")
			if ok {
				vsym.Reach("zstd-read-recompressed-first-chunk")
				e := codec.Encs[0]
				vsym.Assert(e.Known && e.Src == codec.Logical(), tag+"/zstd-reencoded-bytes-come-from-the-decoded-chunk")
				vsym.Assert(e.SrcOff == pos, tag+"/zstd-reencoded-piece-starts-at-offset")
				vsym.Assert(s.Off == 0 && s.N == e.Len, tag+"/zstd-reencoded-frame-delivered-whole")
				k := pos / c
				end := (k + 1) * c
				end = vsym.Ite64(end > b.N, b.N, end)
				vsym.Assert(e.SrcOff+e.SrcLen == end, tag+"/zstd-reencoded-piece-ends-at-chunk-end")
				pos = end
			}
		}
	}
	vsym.Assert(pos == b.N, tag+"/zstd-stream-decodes-to-the-rest-of-the-blob")
	vsym.Assert(len(codec.Bad) == 0, tag+"/codec-fed-only-whole-frames")
}
