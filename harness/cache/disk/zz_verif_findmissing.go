package disk

// H11: FindMissingCasBlobs reports exactly the absent digests, in request
// order, duplicates preserved (C10); lookups that hit count as a use (C05).

import (
	"context"

	"github.com/buchgr/bazel-remote/v2/cache"
	"github.com/buchgr/bazel-remote/v2/cache/disk/casblob"
	"github.com/buchgr/bazel-remote/v2/zzverif/vsym"

	pb "github.com/buchgr/bazel-remote/v2/genproto/build/bazel/remote/execution/v2"
)

type vFM struct {
	d       *pb.Digest
	present bool // expected verdict (symbolic): locally present with the stated size, or vouched for by the backend
	local   bool // locally present with the stated size
}

// vFindMissing: a request of k digests over a cache with up to 2 CAS entries
// (hashes H0,H1, sizes symbolic). Each digest is one of:
//   0: H0 with a symbolic stated size   1: H1 with a symbolic stated size
//   2: a hash held nowhere locally      3: the empty blob
func vFindMissingShape(withProxy bool, workers int) { vFindMissingX(1, withProxy, 19, workers, true) }

func vFindMissing(maxK int, withProxy bool, filler int, workers int) {
	vFindMissingX(maxK, withProxy, filler, workers, false)
}

func vFindMissingX(maxK int, withProxy bool, filler int, workers int, shape bool) {
	k := vsym.Choose("k", maxK+1)
	if shape {
		k = 1
	}
	d := vNewDisk(2, casblob.Zstandard, []cache.EntryKind{cache.CAS, cache.CAS}, withProxy)
	c, st := d.c, d.st
	if withProxy {
		c.containsQueue = make(chan proxyCheck, 64)
		for w := 0; w < workers; w++ {
			go c.containsWorker()
		}
		d.px.hasByHash = map[string]bool{vHashA: vsym.Choose("backendHasA", 2) == 1, vHashes[0]: false, vHashes[1]: vsym.Choose("backendHasH1", 2) == 1}
		d.px.hasSize = -1
	}
	var req []*vFM
	var blobs []*pb.Digest
	addDigest := func(kind int) {
		f := &vFM{}
		switch kind {
		case 0, 1:
			f.d = &pb.Digest{Hash: vHashes[kind], SizeBytes: vsym.Int64("stated")}
			vsym.Assume(f.d.SizeBytes >= 0)
			f.present = f.d.SizeBytes == st.items[kind].size
		case 2:
			f.d = &pb.Digest{Hash: vHashA, SizeBytes: vsym.Int64("stated")}
			vsym.Assume(f.d.SizeBytes >= 0)
			f.present = false
		case 3:
			f.d = &pb.Digest{Hash: emptySha256, SizeBytes: 0}
			f.present = true
		}
		f.local = f.present
		if withProxy && kind != 3 {
			f.present = vsym.Or(f.present, vsym.And(d.px.hasByHash[f.d.Hash], f.d.SizeBytes <= c.maxProxyBlobSize))
		}
		req = append(req, f)
		blobs = append(blobs, f.d)
	}
	for i := 0; i < k; i++ {
		if shape {
			addDigest(2) // unknown locally
		} else {
			addDigest(vsym.Choose("digest", 4))
		}
	}
	// concrete filler so that the request crosses the internal batch size
	for i := 0; i < filler; i++ {
		addDigest(3)
	}
	if filler > 0 {
		// one more symbolic digest after the batch edge
		if shape {
			// H0 with a symbolic stated size, the empty blob, or once more the
			// digest only the backend may have (with its own stated size)
			addDigest([]int{0, 3, 2}[vsym.Choose("tail", 3)])
		} else {
			addDigest(vsym.Choose("tail", 3))
		}
	}
	orig := make([]*pb.Digest, len(blobs))
	copy(orig, blobs)

	res, err := c.FindMissingCasBlobs(context.Background(), blobs)

	vsym.Assert(err == nil, "findmissing/no-error")
	vsym.Reach("findmissing-returned")
	// res must be the subsequence of orig holding exactly the absent digests
	j := 0
	for i, f := range req {
		in := j < len(res) && res[j] == orig[i]
		if in {
			j++
			vsym.Reach("findmissing-reported-missing")
			vsym.Assert(vsym.Not(f.present), "findmissing/C10-present-blob-reported-missing")
		} else {
			vsym.Reach("findmissing-reported-present")
			vsym.Assert(f.present, "findmissing/C10-absent-blob-not-reported-missing")
			// nothing larger than max_proxy_blob_size is present on the strength of the backend
			vsym.Assert(vsym.Or(f.local, f.d.SizeBytes <= c.maxProxyBlobSize), "findmissing/C18-oversize-blob-reported-present-through-the-backend")
		}
	}
	vsym.Assert(j == len(res), "findmissing/C10-result-is-a-subsequence-of-the-request-in-order")
	// unchanged index, accounting; hits moved to the front
	vsym.Assert(c.lru.ll.Len() == 2 && len(c.lru.cache) == 2, "findmissing/index-unchanged")
	vsym.Assert(c.lru.currentSize == st.cur0 && c.lru.reservedSize == st.res0, "findmissing/C03-accounting-unchanged")
	if !withProxy {
		vsym.Assert(vsym.Quiesce() == 0, "findmissing/C14-no-goroutine-left")
	} else {
		// only the permanent backend-check workers remain
		vsym.Assert(vsym.Quiesce() == workers, "findmissing/C14-request-leaves-no-goroutine-behind")
	}
	// C05: the most recently looked-up indexed key is at the front
	last := ""
	for _, f := range req {
		if f.d.Hash == vHashes[0] || f.d.Hash == vHashes[1] {
			last = cache.LookupKey(cache.CAS, f.d.Hash)
		}
	}
	if last != "" {
		fr := c.lru.ll.Front()
		vsym.Assert(fr != nil && fr.Value.(*entry).key == last, "findmissing/C05-lookup-counts-as-use")
	}
}

func VerifFindMissing3()      { vFindMissing(3, false, 0, 0) }
func VerifFindMissing4()      { vFindMissing(4, false, 0, 0) }
func VerifFindMissingProxy1() { vFindMissing(1, true, 0, 1) }
func VerifFindMissingProxy2() { vFindMissing(2, true, 0, 2) }
func VerifFindMissingBatch()  { vFindMissing(1, false, 19, 0) }
func VerifFindMissingBatch2() { vFindMissing(1, true, 19, 1) }

// first digest: only the backend may have it; 19 filler; last digest local or empty
func VerifFindMissingBatchProxy() { vFindMissingShape(true, 1) }

// filterNonNil keeps order and drops exactly the nil entries.
func VerifFilterNonNil() {
	n := vsym.Choose("n", 5)
	in := make([]*pb.Digest, n)
	var keep []*pb.Digest
	for i := range in {
		if vsym.Choose("nil", 2) == 0 {
			in[i] = &pb.Digest{Hash: vHashA, SizeBytes: int64(i)}
			keep = append(keep, in[i])
		}
	}
	out := filterNonNil(in)
	vsym.Reach("filter")
	vsym.Assert(len(out) == len(keep), "findmissing/C10-filter-keeps-all-non-nil")
	for i := range keep {
		if i < len(out) {
			vsym.Assert(out[i] == keep[i], "findmissing/C10-filter-keeps-order")
		}
	}
}
