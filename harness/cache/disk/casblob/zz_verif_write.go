package casblob

// H6: WriteAndClose on every stream. Serves C01 (an upload is accepted iff its
// bytes are exactly the declared blob), C20 (what is written conforms to the
// independent v2 specification byte for byte) and C14 (file closed on every
// return).

import (
	"errors"

	"github.com/buchgr/bazel-remote/v2/cache/disk/zstdimpl"
	"github.com/buchgr/bazel-remote/v2/zzverif/vmodel"
	"github.com/buchgr/bazel-remote/v2/zzverif/vsym"
)

const vDeclHash = "aaaaaaaaaaaaaaaaaaaaaaaaaaaaaaaaaaaaaaaaaaaaaaaaaaaaaaaaaaaaaaaa"

var vErrStream = errors.New("stream fault")

type vUpload struct {
	size int64 // declared size
	st   *vmodel.MStream
	bl   *vmodel.BlobSpec
}

// vArbitraryUpload: a stream of any length, agreeing with the declared blob up
// to any point, failing at any byte or not at all.
func vArbitraryUpload(maxSize int64, short int) *vUpload {
	u := &vUpload{}
	u.size = vsym.Int64("size")
	vsym.Assume(u.size <= maxSize)
	l := vsym.Int64("L")
	vsym.Assume(l >= 0)
	vsym.Assume(l <= maxSize+(2<<20))
	nb := vsym.Int64("nB")
	vsym.Assume(nb >= 1) // the declared hash is not the hash of the empty blob
	vsym.Assume(nb <= maxSize+(2<<20))
	d := vsym.Int64("d")
	vsym.Assume(d >= 0)
	fail := vsym.Int64("failAt")
	vsym.Assume(fail >= -1)
	vsym.Assume(fail <= l)
	u.st = &vmodel.MStream{Name: "upload", L: l, FailAt: fail, Err: vErrStream, Short: short}
	if vsym.Choose("eofWithData", 2) == 1 {
		u.st.EOFWith = true
	}
	u.bl = &vmodel.BlobSpec{Stream: "upload", Hash: vDeclHash, N: nb, D: d}
	vmodel.Blobs = []*vmodel.BlobSpec{u.bl}
	return u
}

// good: the stream delivers exactly the declared blob.
func (u *vUpload) good() bool {
	noFault := vsym.Or(u.st.FailAt < 0, u.st.FailAt >= u.st.L)
	a := vsym.And(u.st.L == u.size, u.bl.N == u.size)
	return vsym.And(vsym.And(a, u.bl.D >= u.bl.N), noFault)
}

func vGet(b []byte, at, n int) uint64 {
	var v uint64
	for i := 0; i < n; i++ {
		v |= uint64(b[at+i]) << (8 * uint(i))
	}
	return v
}

func vWrite(comp CompressionType, maxChunks int64, short int) {
	maxSize := maxChunks * defaultChunkSize
	u := vArbitraryUpload(maxSize, short)
	vmodel.ResetFS()
	codec := &zstdimpl.VCodec{FileID: "none"}
	f, err := vmodel.Os_OpenFile("/cache/cas.v2/aa/blob-tmp", 0x242, 0664) // O_RDWR|O_CREATE|O_EXCL
	if err != nil {
		vsym.Stop("create")
	}
	mf := vmodel.FS.Files[0]

	sizeOnDisk, err := WriteAndClose(codec, u.st, f, comp, vDeclHash, u.size)

	vsym.Assert(vmodel.FS.OpenCount == 0, "C14/file-closed-on-every-return")
	if err != nil {
		vsym.Reach("write-refused")
		vsym.Assert(vsym.Not(vsym.And(u.good(), u.size > 0)), "C01/well-formed-upload-is-accepted")
		return
	}
	vsym.Reach("write-accepted")
	vsym.Assert(u.size > 0, "C01/empty-or-negative-size-accepted")
	vsym.Assert(u.st.L == u.size, "C01/accepted-although-stream-length-differs-from-declared-size")
	vsym.Assert(u.bl.N == u.size, "C01/accepted-although-declared-size-is-not-the-blob-size")
	vsym.Assert(u.bl.D >= u.bl.N, "C01/accepted-although-bytes-differ-from-the-blob")
	vsym.Assert(u.good(), "C01/accepted-only-if-stream-is-exactly-the-declared-blob")

	// ---- C20: the file conforms to the published v2 format
	c := int64(defaultChunkSize)
	chunks := int64(1)
	if comp == Zstandard {
		chunks = u.size / c
		if u.size%c > 0 {
			chunks++
		}
	}
	nOff := int(chunks) + 1 // forks over the (bounded) chunk count
	hdrLen := vFixedPart + 8*nOff
	okLen := len(mf.Head) == hdrLen
	vsym.Assert(okLen, "C20/header-length-is-29-plus-8-per-table-entry")
	if !okLen {
		return
	}
	h := mf.Head
	vsym.Assert(vGet(h, 0, 4) == vMagic, "C20/magic-number")
	vsym.Assert(vGet(h, 4, 4) == uint64(21+8*nOff), "C20/frame-size")
	vsym.Assert(int64(vGet(h, 8, 8)) == u.size, "C20/logical-size-field")
	vsym.Assert(h[16] == uint8(comp), "C20/compression-type-field")
	vsym.Assert(vGet(h, 17, 4) == uint64(defaultChunkSize), "C20/chunk-size-field")
	vsym.Assert(vGet(h, 21, 8) == uint64(nOff), "C20/table-length-field")
	vsym.Assert(sizeOnDisk == mf.Size, "C20/returned-size-is-file-size")
	if comp == Identity {
		// WriteAndClose is only ever called with Zstandard by this build
		// (disk.go); its identity branch leaves the chunk table unfinalised and
		// is not part of the C20 claim. The acceptance rule (C01) is checked.
		vsym.Reach("write-identity-accepted")
		okE := len(mf.Ext) == 1
		vsym.Assert(okE, "C20/identity-data-is-one-run")
		if okE {
			e := mf.Ext[0]
			vsym.Assert(e.Off == int64(hdrLen), "C20/identity-data-follows-header")
			vsym.Assert(vsym.And(e.Src == "upload", e.SrcOff == 0), "C20/identity-data-is-the-raw-stream")
			vsym.Assert(e.Len == u.size, "C20/identity-data-length")
			vsym.Assert(mf.Size == int64(hdrLen)+u.size, "C20/identity-file-size")
		}
		return
	}
	vsym.Reach("write-zstd-accepted")
	vsym.Assert(int64(vGet(h, vFixedPart, 8)) == int64(hdrLen), "C20/first-chunk-follows-header")
	vsym.Assert(int64(vGet(h, vFixedPart+8*(nOff-1), 8)) == mf.Size, "C20/last-table-entry-is-file-size")
	vsym.Assert(mf.Synced, "C08/file-synced-before-close")
	okE := len(mf.Ext) == int(chunks) && len(codec.Encs) == int(chunks)
	vsym.Assert(okE, "C20/one-frame-per-chunk")
	if !okE {
		return
	}
	pos := int64(hdrLen)
	for i := 0; i < int(chunks); i++ {
		e := mf.Ext[i]
		enc := codec.Encs[i]
		vsym.Assert(int64(vGet(h, vFixedPart+8*i, 8)) == pos, "C20/table-entry-is-the-frame-offset")
		vsym.Assert(e.Off == pos, "C20/frames-are-contiguous")
		vsym.Assert(vsym.And(e.Src == zstdimplEncName(i), e.SrcOff == 0), "C20/chunk-is-one-whole-frame")
		vsym.Assert(e.Len == enc.Len, "C20/frame-written-completely")
		vsym.Assert(vsym.And(enc.Known, enc.Src == "upload"), "C20/frame-encodes-stream-bytes")
		vsym.Assert(enc.SrcOff == int64(i)*c, "C20/frame-encodes-its-chunk")
		want := u.size - int64(i)*c
		want = vsym.Ite64(want > c, c, want)
		vsym.Assert(enc.SrcLen == want, "C20/chunk-length")
		pos += e.Len
	}
	vsym.Assert(pos == mf.Size, "C20/no-bytes-after-last-frame")
	if chunks > 1 {
		vsym.Reach("write-zstd-multi-chunk")
	}
}

func zstdimplEncName(i int) string {
	return []string{"enc0", "enc1", "enc2", "enc3", "enc4", "enc5", "enc6", "enc7"}[i]
}

func VerifWriteZstd2()     { vWrite(Zstandard, 2, 0) }
func VerifWriteZstd3()     { vWrite(Zstandard, 3, 1) }
func VerifWriteIdentity()  { vWrite(Identity, 2, 0) }
func VerifWriteIdentityS() { vWrite(Identity, 3, 1) }
