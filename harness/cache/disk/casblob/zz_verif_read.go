package casblob

// H7: the CAS blob readers on every file laid out in the published v2 format
// (independent specification below), every offset, size known or unknown;
// and on arbitrary header bytes (no panic). Serves C02, C20, C14.

import (
	"io"

	"github.com/buchgr/bazel-remote/v2/cache/disk/zstdimpl"
	"github.com/buchgr/bazel-remote/v2/zzverif/vmodel"
	"github.com/buchgr/bazel-remote/v2/zzverif/vsym"
)

// ---- independent specification of the v2 header (README / casblob docs):
//   bytes 0..3   magic 0x184D2A50 (zstd skippable frame), little endian
//   bytes 4..7   frame size = size of the rest of the header = 21 + 8*numOffsets
//   bytes 8..15  logical (uncompressed) size, int64 LE
//   byte  16     compression type: 0 identity, 1 zstandard
//   bytes 17..20 chunk size, uint32 LE
//   bytes 21..28 number of table entries (chunks + 1), int64 LE
//   then the table: int64 LE file offsets of each chunk, plus the file size.
const (
	vMagic     = 0x184D2A50
	vFixedPart = 29
	vMaxSize   = int64(1) << 40
)

func vPut(b []byte, at int, v uint64, n int) {
	for i := 0; i < n; i++ {
		b[at+i] = byte(v >> (8 * uint(i)))
	}
}

type vBlob struct {
	n      int64 // logical size
	comp   uint8
	chunk  uint32
	nOff   int
	table  []int64
	fsize  int64
	head   []byte
	mf     *vmodel.MFile
	codec  *zstdimpl.VCodec
	hdrLen int64
}

// vSpecBlob builds an arbitrary spec-conformant blob file with nOff table
// entries. For zstandard files the chunk size is any value >= 1 (not the
// build's default) and the number of chunks is ceil(n/chunk).
func vSpecBlob(nOff int, comp uint8) *vBlob {
	b := &vBlob{nOff: nOff, comp: comp}
	b.n = vsym.Int64("n")
	vsym.Assume(b.n > 0)
	vsym.Assume(b.n < vMaxSize)
	b.chunk = vsym.Uint32("chunk")
	vsym.Assume(b.chunk >= 1)
	b.hdrLen = int64(vFixedPart + 8*nOff)
	b.table = make([]int64, nOff)
	b.table[0] = b.hdrLen
	for i := 1; i < nOff; i++ {
		b.table[i] = vsym.Int64("off")
		vsym.Assume(b.table[i] > b.table[i-1])
		vsym.Assume(b.table[i] < vMaxSize)
	}
	b.fsize = b.table[nOff-1]
	chunks := int64(nOff - 1)
	if comp == 1 {
		// chunks = ceil(n / chunk)
		c := int64(b.chunk)
		vsym.Assume((chunks-1)*c < b.n)
		vsym.Assume(b.n <= chunks*c)
	} else {
		// identity: one chunk holding the raw bytes
		vsym.Assume(b.fsize == b.hdrLen+b.n)
	}
	b.head = make([]byte, b.hdrLen)
	vPut(b.head, 0, vMagic, 4)
	vPut(b.head, 4, uint64(21+8*nOff), 4)
	vPut(b.head, 8, uint64(b.n), 8)
	b.head[16] = comp
	vPut(b.head, 17, uint64(b.chunk), 4)
	vPut(b.head, 21, uint64(nOff), 8)
	for i := 0; i < nOff; i++ {
		vPut(b.head, vFixedPart+8*i, uint64(b.table[i]), 8)
	}
	vmodel.ResetFS()
	b.mf = vmodel.FS.AddFile("/cache/cas.v2/aa/blob", b.head, b.fsize)
	b.codec = &zstdimpl.VCodec{FileID: b.mf.ID, Table: b.table, Chunk: int64(b.chunk), N: b.n}
	return b
}

type vSeg struct {
	src string
	off int64
	n   int64
}

// vDrain reads rc to EOF with a huge buffer and returns what it delivered.
func vDrain(rc io.Reader, maxReads int) ([]vSeg, error) {
	var segs []vSeg
	for i := 0; i < maxReads; i++ {
		buf := vsym.MakeBytes(vmodel.CopyBuf)
		n, err := rc.Read(buf)
		if n > 0 {
			s, off, ok := vsym.Prov(buf[:n])
			if !ok {
				s = "?"
			}
			segs = append(segs, vSeg{s, off, int64(n)})
		}
		if err == io.EOF {
			return segs, nil
		}
		if err != nil {
			return segs, err
		}
	}
	vsym.Stop("reader did not reach EOF within the read bound")
	return nil, nil
}

// vAssertRange: the segments are exactly bytes [off, off+n) of source src.
func vAssertRange(segs []vSeg, src string, off, n int64, tag string) {
	pos := off
	for _, s := range segs {
		vsym.Assert(s.src == src, tag+"/bytes-from-the-right-source")
		vsym.Assert(s.off == pos, tag+"/bytes-contiguous-from-offset")
		pos += s.n
	}
	vsym.Assert(pos == off+n, tag+"/delivers-exactly-the-rest-of-the-blob")
}

func vExpected(b *vBlob) int64 {
	if vsym.Choose("sizeKnown", 2) == 0 {
		return -1
	}
	return b.n
}

// ---- GetUncompressedReadCloser on zstandard files

func vReadUncompressed(maxOff int) {
	nOff := 2 + vsym.Choose("chunks", maxOff-1)
	b := vSpecBlob(nOff, 1)
	off := vsym.Int64("offset")
	vsym.Assume(off >= 0)
	vsym.Assume(off < b.n)
	exp := vExpected(b)
	f := vmodel.FS.OpenHandle(b.mf)

	rc, err := GetUncompressedReadCloser(b.codec, f, exp, off)

	vsym.Assert(err == nil, "C02/uncompressed-read-of-conformant-file-succeeds")
	if err != nil {
		return
	}
	vsym.Reach("uncompressed-read-ok")
	segs, rerr := vDrain(rc, 4)
	vsym.Assert(rerr == nil, "C02/uncompressed-stream-has-no-error")
	vsym.Assert(len(b.codec.Bad) == 0, "C02/codec-fed-only-whole-frames-from-a-frame-boundary")
	vAssertRange(segs, b.codec.Logical(), off, b.n-off, "C02/uncompressed")
	if len(segs) > 1 {
		vsym.Reach("uncompressed-read-first-chunk-plus-stream")
	}
	cerr := rc.Close()
	vsym.Assert(cerr == nil, "C14/close-ok")
	vsym.Assert(vmodel.FS.OpenCount == 0, "C14/no-open-file-after-close")
	vsym.Assert(b.codec.OpenDecs == 0, "C14/no-open-decoder-after-close")
}

func VerifReadUncompressed4() { vReadUncompressed(4) }
func VerifReadUncompressed6() { vReadUncompressed(6) }

// ---- GetZstdReadCloser on zstandard files: the delivered stream must be a
// sequence of whole frames that decodes to [offset, n) (the header, a
// skippable frame, may precede them).

func vReadZstd(maxOff int) {
	nOff := 2 + vsym.Choose("chunks", maxOff-1)
	b := vSpecBlob(nOff, 1)
	off := vsym.Int64("offset")
	vsym.Assume(off >= 0)
	vsym.Assume(off < b.n)
	exp := vExpected(b)
	f := vmodel.FS.OpenHandle(b.mf)

	rc, err := GetZstdReadCloser(b.codec, f, exp, off)

	vsym.Assert(err == nil, "C02/zstd-read-of-conformant-file-succeeds")
	if err != nil {
		return
	}
	vsym.Reach("zstd-read-ok")
	segs, rerr := vDrain(rc, 4)
	vsym.Assert(rerr == nil, "C02/zstd-stream-has-no-error")
	c := int64(b.chunk)
	// decode the delivered stream with the contract: logical position reached
	pos := off
	for si, s := range segs {
		if s.src == b.mf.ID {
			// bytes of the file: must start at the header (only when offset==0)
			// or at the frame boundary of chunk pos/c, with pos on a chunk edge,
			// and run to the end of the file.
			vsym.Assert(si == len(segs)-1, "C02/zstd-file-tail-is-last")
			vsym.Assert(s.off+s.n == b.fsize, "C02/zstd-file-tail-runs-to-end-of-file")
			if s.off == 0 {
				vsym.Reach("zstd-read-whole-file-with-header")
				vsym.Assert(pos == 0, "C02/zstd-header-only-at-offset-0")
			} else {
				vsym.Assert(pos%c == 0, "C02/zstd-tail-starts-on-chunk-edge")
				k := pos / c
				vsym.Assert(k < int64(nOff-1), "C02/zstd-tail-chunk-exists")
				if k < int64(nOff-1) {
					vsym.Assert(s.off == b.table[k], "C02/zstd-tail-starts-at-frame-of-that-chunk")
				}
			}
			pos = b.n
		} else {
			// a re-encoded piece: must encode exactly [pos, end of that chunk)
			ok := len(b.codec.Encs) == 1 && s.src == "enc0" && si == 0
			vsym.Assert(ok, "C02/zstd-first-piece-is-the-one-reencoded-frame")
			if ok {
				vsym.Reach("zstd-read-recompressed-first-chunk")
				e := b.codec.Encs[0]
				vsym.Assert(e.Known && e.Src == b.codec.Logical(), "C02/zstd-reencoded-bytes-come-from-the-decoded-chunk")
				vsym.Assert(e.SrcOff == pos, "C02/zstd-reencoded-piece-starts-at-offset")
				vsym.Assert(s.off == 0 && s.n == e.Len, "C02/zstd-reencoded-frame-delivered-whole")
				k := pos / c
				end := (k + 1) * c
				end = vsym.Ite64(end > b.n, b.n, end)
				vsym.Assert(e.SrcOff+e.SrcLen == end, "C02/zstd-reencoded-piece-ends-at-chunk-end")
				pos = end
			}
		}
	}
	vsym.Assert(pos == b.n, "C02/zstd-stream-decodes-to-the-rest-of-the-blob")
	vsym.Assert(len(b.codec.Bad) == 0, "C02/codec-fed-only-whole-frames")
	cerr := rc.Close()
	vsym.Assert(cerr == nil, "C14/close-ok")
	vsym.Assert(vmodel.FS.OpenCount == 0, "C14/no-open-file-after-close")
}

func VerifReadZstd4() { vReadZstd(4) }
func VerifReadZstd6() { vReadZstd(6) }

// ---- identity-compressed v2 files (written by uncompressed storage mode
// with a header): raw bytes follow the header.

func VerifReadIdentity() {
	b := vSpecBlob(2, 0)
	off := vsym.Int64("offset")
	vsym.Assume(off >= 0)
	vsym.Assume(off < b.n)
	exp := vExpected(b)
	f := vmodel.FS.OpenHandle(b.mf)
	rc, err := GetUncompressedReadCloser(b.codec, f, exp, off)
	vsym.Assert(err == nil, "C02/identity-read-succeeds")
	if err != nil {
		return
	}
	vsym.Reach("identity-read-ok")
	segs, rerr := vDrain(rc, 3)
	vsym.Assert(rerr == nil, "C02/identity-stream-has-no-error")
	vAssertRange(segs, b.mf.ID, b.hdrLen+off, b.n-off, "C02/identity")
	_ = rc.Close()
	vsym.Assert(vmodel.FS.OpenCount == 0, "C14/no-open-file-after-close")
}

// ---- size mismatch is an error and closes the file

func VerifReadWrongSize() {
	b := vSpecBlob(3, 1)
	exp := vsym.Int64("expected")
	vsym.Assume(exp != -1)
	vsym.Assume(exp != b.n)
	f := vmodel.FS.OpenHandle(b.mf)
	var rc io.ReadCloser
	var err error
	if vsym.Choose("which", 2) == 0 {
		rc, err = GetUncompressedReadCloser(b.codec, f, exp, 0)
	} else {
		rc, err = GetZstdReadCloser(b.codec, f, exp, 0)
	}
	vsym.Reach("wrong-size")
	vsym.Assert(err != nil, "C02/size-mismatch-is-an-error")
	vsym.Assert(rc == nil, "C02/size-mismatch-returns-no-reader")
	vsym.Assert(vmodel.FS.OpenCount == 0, "C14/file-closed-on-error")
}

// ---- arbitrary header bytes: whatever readHeader accepts must not panic the
// readers (C14). File size and all header bytes are unconstrained.

func vReadArbitrary(nOff int) {
	hdrLen := vFixedPart + 8*nOff
	head := vsym.Bytes("h", hdrLen)
	// bound: the header's own entry count is nOff (larger tables are outside the bound)
	cnt := int64(0)
	for i := 0; i < 8; i++ {
		cnt |= int64(head[21+i]) << (8 * uint(i))
	}
	vsym.Assume(cnt == int64(nOff))
	fsize := vsym.Int64("fsize")
	vsym.Assume(fsize >= int64(hdrLen))
	vsym.Assume(fsize < vMaxSize)
	vmodel.ResetFS()
	mf := vmodel.FS.AddFile("/cache/cas.v2/aa/blob", head, fsize)
	codec := &zstdimpl.VCodec{FileID: mf.ID, Arbitrary: true}
	off := vsym.Int64("offset")
	vsym.Assume(off >= 0)
	vsym.Assume(off < vMaxSize)
	exp := vsym.Int64("expected")
	vsym.Assume(exp >= -1)
	// callers guarantee offset < size when the size is known (disk.get)
	vsym.Assume(vsym.Or(exp <= 0, off < exp))
	f := vmodel.FS.OpenHandle(mf)
	var rc io.ReadCloser
	var err error
	if vsym.Choose("which", 2) == 0 {
		vsym.Fact("reader", "uncompressed")
		rc, err = GetUncompressedReadCloser(codec, f, exp, off)
	} else {
		vsym.Fact("reader", "zstd")
		rc, err = GetZstdReadCloser(codec, f, exp, off)
	}
	vsym.Reach("arbitrary-header-returned")
	if err != nil {
		vsym.Assert(vmodel.FS.OpenCount == 0, "C14/file-closed-on-error")
		return
	}
	vsym.Reach("arbitrary-header-accepted")
	_ = rc.Close()
	vsym.Assert(vsym.Quiesce() == 0, "C14/no-goroutine-left-after-close")
	vsym.Assert(vmodel.FS.OpenCount == 0, "C14/no-open-file-after-close")
}

func VerifReadArbitrary2() { vReadArbitrary(2) }
func VerifReadArbitrary3() { vReadArbitrary(3) }
