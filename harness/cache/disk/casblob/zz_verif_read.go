package casblob

// H7: the CAS blob readers on every file laid out in the published v2 format
// (independent specification below), every offset, size known or unknown;
// and on arbitrary header bytes (no panic). Serves C02, C20, C14.

import (
	"io"

	"github.com/buchgr/bazel-remote/v2/cache/disk/zstdimpl"
	"github.com/buchgr/bazel-remote/v2/zzverif/vmodel"
	"github.com/buchgr/bazel-remote/v2/zzverif/vsym"
)

const (
	vMagic     = zstdimpl.VMagic
	vFixedPart = zstdimpl.VFixedPart
	vMaxSize   = zstdimpl.VMaxSize
)

type vBlob = zstdimpl.SpecBlob

func vSpecBlob(nOff int, comp uint8) *vBlob {
	vmodel.ResetFS()
	return zstdimpl.NewSpecBlob("/cache/cas.v2/aa/blob", nOff, comp, nil)
}

func vExpected(b *vBlob) int64 {
	if vsym.Choose("sizeKnown", 2) == 0 {
		return -1
	}
	return b.N
}

// ---- GetUncompressedReadCloser on zstandard files

func vReadUncompressed(maxOff int) {
	nOff := 2 + vsym.Choose("chunks", maxOff-1)
	b := vSpecBlob(nOff, 1)
	off := vsym.Int64("offset")
	vsym.Assume(off >= 0)
	vsym.Assume(off < b.N)
	exp := vExpected(b)
	f := vmodel.FS.OpenHandle(b.MF)

	rc, err := GetUncompressedReadCloser(b.Codec, f, exp, off)

	vsym.Assert(err == nil, "C02/uncompressed-read-of-conformant-file-succeeds")
	if err != nil {
		return
	}
	vsym.Reach("uncompressed-read-ok")
	segs, rerr := zstdimpl.Drain(rc, 4)
	vsym.Assert(rerr == nil, "C02/uncompressed-stream-has-no-error")
	vsym.Assert(len(b.Codec.Bad) == 0, "C02/codec-fed-only-whole-frames-from-a-frame-boundary")
	zstdimpl.AssertRange(segs, b.Codec.Logical(), off, b.N-off, "C02/uncompressed")
	if len(segs) > 1 {
		vsym.Reach("uncompressed-read-first-chunk-plus-stream")
	}
	cerr := rc.Close()
	vsym.Assert(cerr == nil, "C14/close-ok")
	vsym.Assert(vmodel.FS.OpenCount == 0, "C14/no-open-file-after-close")
	vsym.Assert(b.Codec.OpenDecs == 0, "C14/no-open-decoder-after-close")
}

func VerifReadUncompressed4() { vReadUncompressed(4) }
func VerifReadUncompressed6() { vReadUncompressed(6) }

// ---- GetZstdReadCloser on zstandard files: the delivered stream must be a
// sequence of whole frames that decodes to [offset, n) (the header, a
// skippable frame, may precede them).

func vReadZstd(maxOff int) {
	nOff := 2 + vsym.Choose("chunks", maxOff-1)
	b := vSpecBlob(nOff, 1)
	off := vsym.Int64("offset")
	vsym.Assume(off >= 0)
	vsym.Assume(off < b.N)
	exp := vExpected(b)
	f := vmodel.FS.OpenHandle(b.MF)

	rc, err := GetZstdReadCloser(b.Codec, f, exp, off)

	vsym.Assert(err == nil, "C02/zstd-read-of-conformant-file-succeeds")
	if err != nil {
		return
	}
	vsym.Reach("zstd-read-ok")
	segs, rerr := zstdimpl.Drain(rc, 4)
	vsym.Assert(rerr == nil, "C02/zstd-stream-has-no-error")
	zstdimpl.AssertZstdStream(b, b.Codec, segs, off, "C02")
	cerr := rc.Close()
	vsym.Assert(cerr == nil, "C14/close-ok")
	vsym.Assert(vmodel.FS.OpenCount == 0, "C14/no-open-file-after-close")
}

func VerifReadZstd4() { vReadZstd(4) }
func VerifReadZstd6() { vReadZstd(6) }

// ---- identity-compressed v2 files (written by uncompressed storage mode
// with a header): raw bytes follow the header.

func VerifReadIdentity() {
	b := vSpecBlob(2, 0)
	off := vsym.Int64("offset")
	vsym.Assume(off >= 0)
	vsym.Assume(off < b.N)
	exp := vExpected(b)
	f := vmodel.FS.OpenHandle(b.MF)
	rc, err := GetUncompressedReadCloser(b.Codec, f, exp, off)
	vsym.Assert(err == nil, "C02/identity-read-succeeds")
	if err != nil {
		return
	}
	vsym.Reach("identity-read-ok")
	segs, rerr := zstdimpl.Drain(rc, 3)
	vsym.Assert(rerr == nil, "C02/identity-stream-has-no-error")
	zstdimpl.AssertRange(segs, b.MF.ID, b.HdrLen+off, b.N-off, "C02/identity")
	_ = rc.Close()
	vsym.Assert(vmodel.FS.OpenCount == 0, "C14/no-open-file-after-close")
}

// ---- size mismatch is an error and closes the file

func VerifReadWrongSize() {
	b := vSpecBlob(3, 1)
	exp := vsym.Int64("expected")
	vsym.Assume(exp != -1)
	vsym.Assume(exp != b.N)
	f := vmodel.FS.OpenHandle(b.MF)
	var rc io.ReadCloser
	var err error
	if vsym.Choose("which", 2) == 0 {
		rc, err = GetUncompressedReadCloser(b.Codec, f, exp, 0)
	} else {
		rc, err = GetZstdReadCloser(b.Codec, f, exp, 0)
	}
	vsym.Reach("wrong-size")
	vsym.Assert(err != nil, "C02/size-mismatch-is-an-error")
	vsym.Assert(rc == nil, "C02/size-mismatch-returns-no-reader")
	vsym.Assert(vmodel.FS.OpenCount == 0, "C14/file-closed-on-error")
}

// ---- arbitrary header bytes: whatever readHeader accepts must not panic the
// readers (C14). File size and all header bytes are unconstrained.

func vReadArbitrary(nOff int) {
	hdrLen := vFixedPart + 8*nOff
	head := vsym.Bytes("h", hdrLen)
	// bound: the header's own entry count is nOff (larger tables are outside the bound)
	cnt := int64(0)
	for i := 0; i < 8; i++ {
		cnt |= int64(head[21+i]) << (8 * uint(i))
	}
	vsym.Assume(cnt == int64(nOff))
	fsize := vsym.Int64("fsize")
	vsym.Assume(fsize >= int64(hdrLen))
	vsym.Assume(fsize < vMaxSize)
	vmodel.ResetFS()
	mf := vmodel.FS.AddFile("/cache/cas.v2/aa/blob", head, fsize)
	codec := &zstdimpl.VCodec{FileID: mf.ID, Arbitrary: true}
	off := vsym.Int64("offset")
	vsym.Assume(off >= 0)
	vsym.Assume(off < vMaxSize)
	exp := vsym.Int64("expected")
	vsym.Assume(exp >= -1)
	// callers guarantee offset < size when the size is known (disk.get)
	vsym.Assume(vsym.Or(exp <= 0, off < exp))
	f := vmodel.FS.OpenHandle(mf)
	var rc io.ReadCloser
	var err error
	if vsym.Choose("which", 2) == 0 {
		vsym.Fact("reader", "uncompressed")
		rc, err = GetUncompressedReadCloser(codec, f, exp, off)
	} else {
		vsym.Fact("reader", "zstd")
		rc, err = GetZstdReadCloser(codec, f, exp, off)
	}
	vsym.Reach("arbitrary-header-returned")
	if err != nil {
		vsym.Assert(vmodel.FS.OpenCount == 0, "C14/file-closed-on-error")
		return
	}
	vsym.Reach("arbitrary-header-accepted")
	_ = rc.Close()
	vsym.Assert(vsym.Quiesce() == 0, "C14/no-goroutine-left-after-close")
	vsym.Assert(vmodel.FS.OpenCount == 0, "C14/no-open-file-after-close")
}

func VerifReadArbitrary2() { vReadArbitrary(2) }
func VerifReadArbitrary3() { vReadArbitrary(3) }
