package disk

// H12: GetValidatedActionResult — an action-cache hit implies that every
// referenced CAS blob is present (C06), and counts as a use of each (C05).

import (
	"context"

	"github.com/buchgr/bazel-remote/v2/cache"
	"github.com/buchgr/bazel-remote/v2/cache/disk/casblob"
	"github.com/buchgr/bazel-remote/v2/zzverif/vmodel"
	"github.com/buchgr/bazel-remote/v2/zzverif/vsym"

	pb "github.com/buchgr/bazel-remote/v2/genproto/build/bazel/remote/execution/v2"
)

// a referenced blob: digest (hash, declared size); in the index or not; the
// indexed size is symbolic, so "present with another size" is covered.
type vRef struct {
	d       *pb.Digest
	inIndex bool
	idx     int // entry index when inIndex
	what    string
}

// vValidatedAC builds: an unrelated entry U (most recently used), the AC entry
// for hash A, and a symbolic subset of the blobs the ActionResult refers to.
func vValidatedAC(maxFiles int, withDir bool, withProxy bool) { vValidatedACX(maxFiles, withDir, withProxy, false) }

// mixed: exactly two output files, the first with inline contents, the second
// referenced by digest; nothing else.
func vValidatedACX(maxFiles int, withDir bool, withProxy bool, mixed bool) {
	nFiles := 2
	if !mixed {
		nFiles = vsym.Choose("files", maxFiles+1)
	}
	hasStdout, hasStderr := false, false
	if mixed {
	} else if !withProxy {
		hasStdout = vsym.Choose("stdout", 2) == 1
		hasStderr = vsym.Choose("stderr", 2) == 1
	} else {
		// backend variant: exactly one or two references, to keep the
		// schedule exploration small
		nFiles = 1
		hasStdout = vsym.Choose("stdout", 2) == 1
	}
	hasDir := withDir && vsym.Choose("dir", 2) == 1

	var kinds []cache.EntryKind
	var hashes []string
	add := func(k cache.EntryKind, h string) int {
		kinds = append(kinds, k)
		hashes = append(hashes, h)
		return len(kinds) - 1
	}
	add(cache.CAS, vHashes[7]) // U: unrelated, most recently used
	acIdx := add(cache.AC, vHashA)
	hi := 0
	var refs []*vRef
	newRef := func(what string) *vRef {
		r := &vRef{d: &pb.Digest{Hash: vHashes[hi], SizeBytes: vsym.Int64("declared")}, what: what}
		vsym.Assume(r.d.SizeBytes >= 0)
		vsym.Assume(r.d.SizeBytes < vmaxSz)
		hi++
		if vsym.Choose("inIndex", 2) == 1 {
			r.inIndex = true
			r.idx = add(cache.CAS, r.d.Hash)
		}
		refs = append(refs, r)
		return r
	}
	ar := &pb.ActionResult{}
	for i := 0; i < nFiles; i++ {
		f := &pb.OutputFile{Path: "out/f"}
		inline := false
		if mixed {
			inline = i == 0
		} else {
			inline = vsym.Choose("inline", 2) == 1
		}
		if inline {
			// inlined contents: the digest is not a dependency
			f.Contents = []byte{1}
			f.Digest = &pb.Digest{Hash: vHashD, SizeBytes: 1}
		} else {
			f.Digest = newRef("output file").d
		}
		ar.OutputFiles = append(ar.OutputFiles, f)
	}
	var tree *pb.Tree
	var treeRef *vRef
	if hasDir {
		treeRef = newRef("tree blob")
		vsym.Assume(treeRef.d.SizeBytes > 0)
		tree = &pb.Tree{Root: &pb.Directory{}}
		tree.Root.Files = append(tree.Root.Files, &pb.FileNode{Name: "r", Digest: newRef("tree root file").d})
		child := &pb.Directory{}
		child.Files = append(child.Files, &pb.FileNode{Name: "c", Digest: newRef("tree child file").d})
		tree.Children = append(tree.Children, child)
		ar.OutputDirectories = append(ar.OutputDirectories, &pb.OutputDirectory{Path: "out/d", TreeDigest: treeRef.d})
	}
	if hasStdout {
		ar.StdoutDigest = newRef("stdout").d
	}
	if hasStderr {
		ar.StderrDigest = newRef("stderr").d
	}
	n := len(kinds)
	d := vNewDiskKeys(n, casblob.Identity, kinds, hashes, withProxy)
	c, st := d.c, d.st
	if withProxy {
		c.containsQueue = make(chan proxyCheck, 16)
		go c.containsWorker()
		go c.containsWorker()
		d.px.hasBlob = vsym.Bool("backendHas")
		d.px.hasSize = -1
	}
	// files that are read completely fit the read buffer
	vsym.Assume(st.items[acIdx].sizeOnDisk < 1<<39)
	if hasDir && treeRef.inIndex {
		vsym.Assume(st.items[treeRef.idx].sizeOnDisk < 1<<39)
	}
	// the stored ActionResult and Tree
	vmodel.RegisterProto(d.files[acIdx].ID, ar, st.items[acIdx].size)
	if hasDir && treeRef.inIndex {
		vmodel.RegisterProto(d.files[treeRef.idx].ID, tree, st.items[treeRef.idx].size)
	}

	res, data, err := c.GetValidatedActionResult(context.Background(), vHashA)

	// expected: every reference is locally present with the declared size
	// (the empty blob is always present), or vouched for by the backend
	allPresent := true
	var allP = true
	_ = allPresent
	treeOK := true
	if hasDir {
		// the tree blob itself must be readable locally (it is fetched with Get)
		treeOK = treeRef.inIndex
	}
	okv := vsym.Bool("dummy-true")
	vsym.Assume(okv)
	cond := okv
	for _, r := range refs {
		var p bool
		if r.inIndex {
			p = st.items[r.idx].size == r.d.SizeBytes
		} else {
			p = false
		}
		if withProxy && r != treeRef {
			p = vsym.Or(p, vsym.And(d.px.hasBlob, r.d.SizeBytes <= c.maxProxyBlobSize))
		}
		cond = vsym.And(cond, p)
	}
	_ = allP
	if res != nil {
		vsym.Reach("validated-ac-hit")
		vsym.Assert(err == nil, "ac/hit-without-error")
		vsym.Assert(treeOK, "ac/C06-hit-although-tree-blob-absent")
		vsym.Assert(cond, "ac/C06-hit-only-if-every-referenced-blob-is-present-with-its-size")
		vsym.Assert(data != nil, "ac/hit-returns-serialised-result")
		// the result is the stored message
		vsym.Assert(len(res.OutputFiles) == nFiles, "ac/C11-result-has-the-stored-output-files")
		vsym.Assert(res.StdoutDigest == ar.StdoutDigest && res.StderrDigest == ar.StderrDigest, "ac/C11-result-has-the-stored-digests")
		// C05: the hit used the AC entry and every locally held referenced blob:
		// the unrelated entry U, most recently used before, is now behind them all
		back := c.lru.ll.Back()
		okU := back != nil && back.Value.(*entry).key == st.keys[0]
		vsym.Assert(okU, "ac/C05-hit-counts-as-use-of-every-local-referenced-blob")
	} else if err == nil {
		vsym.Reach("validated-ac-miss")
		if !withProxy {
			vsym.Assert(vsym.Not(cond), "ac/C06-complete-result-is-a-hit")
		}
	} else {
		vsym.Reach("validated-ac-error")
		// an error is only legitimate when something other than absence went
		// wrong; with a well-formed stored result and readable files there is none
		vsym.Assert(false, "ac/C06-absence-must-be-a-miss-not-an-error")
	}
	vsym.Assert(c.lru.reservedSize == st.res0, "ac/C03-reserved-unchanged")
	if !withProxy {
		vsym.Assert(vsym.Quiesce() == 0, "ac/C14-no-goroutine-left")
		vsym.Assert(vmodel.FS.OpenCount == 0, "ac/C14-no-open-file")
	} else {
		// only the two permanent backend-check workers remain (blocked on their queue)
		vsym.Assert(vsym.Quiesce() == 2, "ac/C14-request-leaves-no-goroutine-behind")
	}
	vsym.Assert(c.lru.ll.Len() == n && len(c.lru.cache) == n, "ac/index-unchanged")
	vsym.Assert(c.lru.currentSize == st.cur0, "ac/C03-accounting-unchanged")
}

func VerifValidatedAC()      { vValidatedAC(1, false, false) }
func VerifValidatedACMixed() { vValidatedACX(2, false, false, true) }
func VerifValidatedACDir()   { vValidatedAC(0, true, false) }
func VerifValidatedAC2()     { vValidatedAC(2, false, false) }
func VerifValidatedACProxy() { vValidatedAC(1, false, true) }
