package disk

// H21: two concurrent requests on the disk cache under every schedule the
// preemption bound admits (scheduling points: every mutex acquisition, every
// file-system step, channel operations, goroutine start). Serves C07, and
// C03/C04 at quiescence.

import (
	"context"
	"io"
	"sync"

	"github.com/buchgr/bazel-remote/v2/cache"
	"github.com/buchgr/bazel-remote/v2/cache/disk/casblob"
	"github.com/buchgr/bazel-remote/v2/cache/disk/zstdimpl"
	"github.com/buchgr/bazel-remote/v2/zzverif/vmodel"
	"github.com/buchgr/bazel-remote/v2/zzverif/vsym"
)

// vQuiescent: C03 and C04 once every request has returned and the background
// remover has run: the counters are the sums over the index, the index is a
// consistent map+list, the directory holds exactly the indexed files.
func (d *vDisk) vQuiescent(tag string) {
	c := d.c
	d.drain()
	sumD, sumU, cnt := int64(0), int64(0), 0
	for e := c.lru.ll.Front(); e != nil; e = e.Next() {
		kv := e.Value.(*entry)
		sumD += roundUp4k(kv.value.sizeOnDisk)
		sumU += roundUp4k(kv.value.size)
		vsym.Assert(c.lru.cache[kv.key] == e, tag+"/C07-C03-map-and-list-agree")
		cnt++
	}
	vsym.Assert(len(c.lru.cache) == cnt, tag+"/C07-C03-map-size-equals-list-size")
	vsym.Assert(c.lru.currentSize == sumD+c.lru.reservedSize, tag+"/C07-C03-current-size-is-the-sum-of-the-entries")
	vsym.Assert(c.lru.uncompressedSize == sumU, tag+"/C07-C03-logical-size-is-the-sum-of-the-entries")
	vsym.Assert(c.lru.reservedSize == d.st.res0, tag+"/C07-C03-reservations-returned")
	vsym.Assert(c.lru.currentSize <= c.lru.maxSize, tag+"/C07-C03-within-max-size")
	d.checkDirEqualsIndex(tag)
	vsym.Assert(vmodel.FS.OpenCount == 0, tag+"/C14-no-open-file")
}

// vNoPressure: room for `need` more bytes without evicting anything (the
// interleavings of evictions with requests are outside these harnesses).
func vNoPressure(c *diskCache, need int64) {
	vsym.Assume(c.lru.currentSize < 1<<50)
	vsym.Assume(c.lru.currentSize+need <= c.lru.maxSize)
	c.lru.maxSizeHardLimit = 0
}

type vReadRes struct {
	rc    io.ReadCloser
	found int64
	err   error
	segs  []zstdimpl.Seg
	rerr  error
}

func vReadAll(c *diskCache, kind cache.EntryKind, hash string, size int64) *vReadRes {
	r := &vReadRes{}
	r.rc, r.found, r.err = c.Get(context.Background(), kind, hash, size, 0)
	if r.rc != nil {
		r.segs, r.rerr = zstdimpl.Drain(r.rc, 3)
		_ = r.rc.Close()
	}
	return r
}

// whole: the read delivered exactly bytes [0,n) of file id.
func (r *vReadRes) whole(id string, n int64) bool {
	pos := int64(0)
	ok := true
	for _, s := range r.segs {
		ok = vsym.And(ok, vsym.And(s.Src == id, s.Off == pos))
		pos += s.N
	}
	return vsym.And(ok, vsym.And(pos == n, r.found == n))
}

// A reader and an overwriting upload of the same action-cache key.
func VerifConcReadOverwrite()     { vConcReadOverwrite(false) }
func VerifConcReadOverwriteDeep() { vConcReadOverwrite(false) }

// with the background remover as a third goroutine: the replaced file can
// vanish between the reader's index lookup and its open (slow path)
func VerifConcReadOverwriteEvict() { vConcReadOverwrite(true) }

func vConcReadOverwrite(evictor bool) {
	d := vNewDisk(1, casblob.Zstandard, []cache.EntryKind{cache.AC}, false)
	c, st := d.c, d.st
	hash := vHashes[0]
	old := d.files[0]
	s0 := st.items[0].sizeOnDisk
	vsym.Assume(s0 < 1<<30)
	u := vArbitraryUpload(hash, 1<<30, 0)
	vsym.Assume(u.size >= 1)
	vsym.Assume(u.st.L == u.size)
	vsym.Assume(u.st.FailAt < 0)
	vsym.Assume(c.maxBlobSize >= 1<<30)
	vNoPressure(c, 1<<31)
	req := int64(-1)
	if vsym.Choose("sizeKnown", 2) == 1 {
		req = s0
	}
	var rd *vReadRes
	var perr error
	var wg sync.WaitGroup
	wg.Add(2)
	go func() {
		defer wg.Done()
		rd = vReadAll(c, cache.AC, hash, req)
	}()
	go func() {
		defer wg.Done()
		perr = c.Put(context.Background(), cache.AC, hash, u.size, u.st)
	}()
	stop := make(chan struct{})
	var ewg sync.WaitGroup
	if evictor {
		ewg.Add(1)
		go func() {
			defer ewg.Done()
			select {
			case q := <-c.lru.queuedEvictionsChan:
				c.lru.queuedEvictionsChan <- q
				c.lru.performQueuedEvictions()
			case <-stop:
			}
		}()
	}
	wg.Wait()
	close(stop)
	ewg.Wait()

	vsym.Reach("conc-read-overwrite-done")
	vsym.Assert(rd.err == nil, "conc/C07-read-has-no-error")
	if rd.rc != nil {
		vsym.Reach("conc-read-hit")
		vsym.Assert(rd.rerr == nil, "conc/C07-stream-has-no-error")
		// one whole version: the old file, or the file of the new upload
		isOld := rd.whole(old.ID, s0)
		var nf *vmodel.MFile
		for _, f := range vmodel.FS.Files {
			if f != old {
				nf = f
			}
		}
		isNew := false
		if nf != nil {
			isNew = rd.whole(nf.ID, u.size)
		}
		vsym.Assert(vsym.Or(isOld, isNew), "conc/C07-read-returns-one-whole-version")
	} else {
		vsym.Reach("conc-read-miss")
		// without space pressure the key is present throughout (the old
		// version until the new one is committed): a reader that states no
		// size has no reason to miss
		if req < 0 {
			vsym.Assert(false, "conc/C07-miss-although-key-never-absent")
		}
	}
	if perr == nil {
		vsym.Reach("conc-overwrite-acknowledged")
		it, el := c.lru.cache[cache.LookupKey(cache.AC, hash)], true
		_ = el
		vsym.Assert(it != nil, "conc/C07-acknowledged-upload-is-indexed")
		if it != nil {
			vsym.Assert(it.Value.(*entry).value.sizeOnDisk == u.size, "conc/C07-latest-upload-wins")
		}
	}
	vsym.Assert(vsym.Quiesce() == 0, "conc/C14-no-goroutine-left")
	d.vQuiescent("conc-overwrite")
}

// Two readers of an entry whose file is corrupt (here: too short to hold a
// casblob header): both drop the same index element.
func VerifConcReadersCorrupt() {
	n := 1 + vsym.Choose("others", 2)
	d := vNewDisk(n, casblob.Zstandard, []cache.EntryKind{cache.CAS, cache.CAS}, false)
	c, st := d.c, d.st
	hash := vHashes[0]
	vsym.Assume(st.items[0].sizeOnDisk <= 45)
	var r1, r2 *vReadRes
	var wg sync.WaitGroup
	wg.Add(2)
	go func() {
		defer wg.Done()
		r1 = vReadAll(c, cache.CAS, hash, -1)
	}()
	go func() {
		defer wg.Done()
		r2 = vReadAll(c, cache.CAS, hash, -1)
	}()
	wg.Wait()
	vsym.Reach("conc-readers-corrupt-done")
	vsym.Assert(r1.rc == nil && r2.rc == nil, "conc/C08-corrupt-entry-is-not-served")
	_, present := c.lru.cache[cache.LookupKey(cache.CAS, hash)]
	vsym.Assert(!present, "conc/C07-corrupt-entry-dropped")
	vsym.Assert(vsym.Quiesce() == 0, "conc/C14-no-goroutine-left")
	d.vQuiescent("conc-corrupt")
}

// A reader drops a corrupt entry while an upload replaces it.
func VerifConcCorruptReadPut() {
	d := vNewDisk(1, casblob.Zstandard, []cache.EntryKind{cache.CAS}, false)
	c, st := d.c, d.st
	hash := vHashes[0]
	vsym.Assume(st.items[0].sizeOnDisk <= 45)
	vsym.Assume(st.items[0].size == 1500000)
	u := &vUpload{size: 1500000}
	u.st = &vmodel.MStream{Name: "upload", L: u.size, FailAt: -1}
	u.bl = &vmodel.BlobSpec{Stream: "upload", Hash: hash, N: u.size, D: u.size}
	vmodel.Blobs = []*vmodel.BlobSpec{u.bl}
	vsym.Assume(c.maxBlobSize >= 2<<20)
	vsym.Assume(c.lru.maxSize >= 16<<20)
	var r1 *vReadRes
	var perr error
	var wg sync.WaitGroup
	wg.Add(2)
	go func() {
		defer wg.Done()
		rc, _, err := c.Get(context.Background(), cache.CAS, hash, -1, 0)
		r1 = &vReadRes{rc: rc, err: err}
		if rc != nil {
			_ = rc.Close()
		}
	}()
	go func() {
		defer wg.Done()
		perr = c.Put(context.Background(), cache.CAS, hash, u.size, u.st)
	}()
	wg.Wait()
	vsym.Reach("conc-corrupt-read-put-done")
	vsym.Assert(r1.err == nil, "conc/C07-read-has-no-error")
	if perr == nil {
		vsym.Reach("conc-corrupt-read-put-acked")
	}
	vsym.Assert(vsym.Quiesce() == 0, "conc/C14-no-goroutine-left")
	d.vQuiescent("conc-corrupt-put")
}

// Two uploads of the same action-cache key.
func VerifConcPutPut()     { vConcPutPut(0) }
func VerifConcPutPutDeep() { vConcPutPut(vsym.Choose("n", 2)) }

func vConcPutPut(n int) {
	d := vNewDisk(n, casblob.Zstandard, []cache.EntryKind{cache.AC}, false)
	c := d.c
	hash := vHashes[0]
	sz := [2]int64{vsym.Int64("size1"), vsym.Int64("size2")}
	var ups [2]*vmodel.MStream
	for i := 0; i < 2; i++ {
		vsym.Assume(sz[i] >= 1)
		vsym.Assume(sz[i] < 1<<30)
		ups[i] = &vmodel.MStream{Name: []string{"upload1", "upload2"}[i], L: sz[i], FailAt: -1}
	}
	vsym.Assume(c.maxBlobSize >= 1<<30)
	vNoPressure(c, 1<<32)
	var errs [2]error
	var wg sync.WaitGroup
	wg.Add(2)
	go func() {
		defer wg.Done()
		errs[0] = c.Put(context.Background(), cache.AC, hash, sz[0], ups[0])
	}()
	go func() {
		defer wg.Done()
		errs[1] = c.Put(context.Background(), cache.AC, hash, sz[1], ups[1])
	}()
	wg.Wait()
	vsym.Reach("conc-put-put-done")
	vsym.Assert(vsym.Quiesce() == 0, "conc/C14-no-goroutine-left")
	d.vQuiescent("conc-putput")
	el := c.lru.cache[cache.LookupKey(cache.AC, hash)]
	if errs[0] == nil || errs[1] == nil {
		vsym.Reach("conc-put-put-acked")
		vsym.Assert(el != nil, "conc/C07-acknowledged-upload-is-indexed")
	}
	if el != nil {
		// the surviving version is one whole upload
		it := el.Value.(*entry).value
		mf := vmodel.FS.Lookup(c.getElementPath(cache.LookupKey(cache.AC, hash), it))
		if mf != nil && len(mf.Ext) == 1 {
			e := mf.Ext[0]
			one := vsym.And(e.Src == "upload1", vsym.And(e.Len == sz[0], errs[0] == nil))
			two := vsym.And(e.Src == "upload2", vsym.And(e.Len == sz[1], errs[1] == nil))
			vsym.Assert(vsym.And(e.Off == 0, e.SrcOff == 0), "conc/C07-stored-version-starts-at-byte-0")
			vsym.Assert(vsym.Or(one, two), "conc/C07-stored-version-is-one-whole-acknowledged-upload")
		} else if n := d.st.n; n == 0 || el.Value.(*entry).value != d.st.items[0] {
			vsym.Assert(false, "conc/C07-stored-version-is-not-one-write")
		}
	}
}
