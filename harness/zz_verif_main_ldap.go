package main

// The handler wiring of startHttpServer with LDAP authentication (outside
// C13, which is about htpasswd and mTLS): no combination of options and no
// credential state may panic a handler or leave it blocked (C14). Whether
// LDAP credentials are checked correctly is no part of any listed property:
// served/refused outcomes are reachability witnesses only.

import (
	"context"
	"net/http"
	"net/url"
	"time"

	"golang.org/x/sync/semaphore"

	"github.com/buchgr/bazel-remote/v2/config"
	"github.com/buchgr/bazel-remote/v2/utils/idle"
	"github.com/buchgr/bazel-remote/v2/zzverif/vmodel"
	"github.com/buchgr/bazel-remote/v2/zzverif/vsym"
)

func VerifHTTPAuthWiringLDAP() {
	c := &config.Config{HTTPAddress: "localhost:8080", MaxBlobSize: 1 << 40}
	c.LDAP = &config.LDAPConfig{URL: "ldap://directory", BaseDN: "dc=example", BindUser: "cn=reader",
		BindPassword: "secret", UsernameAttribute: "uid", CacheTime: 3600}
	vmodel.LdapBindDN = "cn=reader,dc=example"
	c.AllowUnauthenticatedReads = vsym.Choose("allowUnauthenticatedReads", 2) == 1
	c.EnableEndpointMetrics = vsym.Choose("endpointMetrics", 2) == 1
	if vsym.Choose("idleTimeout", 2) == 1 {
		c.IdleTimeout = time.Minute
	}
	vsym.Fact("allowUnauthenticatedReads", c.AllowUnauthenticatedReads)
	vsym.Fact("endpointMetrics", c.EnableEndpointMetrics)
	stub := &vCache{}
	var srv *http.Server
	timer := idle.NewTimer(time.Minute, make(chan struct{}, 1))
	sem := semaphore.NewWeighted(1)
	_ = sem.Acquire(context.Background(), 1) // "shutting down": do not start serving
	// main.run passes the htpasswd provider, which is nil without an htpasswd file
	err := startHttpServer(c, &srv, nil, timer, sem, stub)
	vsym.Assert(err == nil, "ldapwiring/startHttpServer-returns")
	stub.stats = 0

	vmodel.LdapUserFound = vsym.Bool("ldap-user-found")
	vmodel.LdapPasswordOK = vsym.Bool("ldap-password-ok")
	hdr := http.Header{}
	hasBasic := false
	switch vsym.Choose("authorization", 4) {
	case 1:
		hdr.Set("Authorization", "Basic dXNlcjpwYXNz") // user:pass
		hasBasic = true
	case 2:
		hdr.Set("Authorization", "Basic !!!not-base64")
	case 3:
		hdr.Set("Authorization", "Basic dXNlcg==") // "user", no colon
	}
	vmodel.ReqHasBasic = hasBasic
	vmodel.ReqUser, vmodel.ReqPass = "user", "pass"

	route := "/"
	method := "GET"
	switch vsym.Choose("request", 5) {
	case 0:
		route = "/status"
	case 1:
		route = "/metrics"
	case 3:
		method = "HEAD"
	case 4:
		method = "PUT"
	}
	vsym.Fact("route", route)
	vsym.Fact("method", method)
	vsym.Fact("basicHeader", hasBasic)
	h := vmodel.MuxRoutes[route]
	if h == nil {
		return
	}
	path := route
	if route == "/" {
		path = "/cas/" + vHash
	}
	r := &http.Request{Method: method, URL: &url.URL{Path: path}, Header: hdr, Body: http.NoBody, ContentLength: 3, RemoteAddr: "1.2.3.4:5"}
	w := &vRW{hdr: http.Header{}}
	h.ServeHTTP(w, r)
	vsym.Reach("ldap-request-answered")

	switch {
	case route == "/status", route == "/metrics":
	case method == "PUT":
		if stub.writes > 0 {
			vsym.Reach("ldap-put-served")
		} else {
			vsym.Reach("ldap-put-refused")
		}
	default:
		if stub.reads > 0 {
			vsym.Reach("ldap-read-served")
		} else {
			vsym.Reach("ldap-read-refused")
		}
	}
}
