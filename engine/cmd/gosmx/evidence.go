package main

import (
	"encoding/json"
	"fmt"
	"os"
	"path/filepath"
	"sort"
	"time"

	"gosmx/sx"
)

func writeEvidence(prop, tier string, seed int64, spec *PropSpec, entries []Entry, results []sx.Result,
	loadDur, wall time.Duration, nviol int, known, inconcl []string, nativeRuns int) {
	states, trans, queries, fallbacks := 0, 0, 0, 0
	obl, dis, impl, implOK := 0, 0, 0, 0
	var solverS float64
	bySolver := map[string]int{}
	var harnesses []map[string]interface{}
	funcs := map[string]sx.FuncCov{}
	stubs := map[string]bool{}
	var samples []interface{}
	reach := map[string]int{}
	perLabel := map[string][2]int{}
	for k, r := range results {
		states += r.Paths
		trans += r.Transitions
		queries += r.Queries
		fallbacks += r.Fallbacks
		solverS += r.SolverTime.Seconds()
		for s, n := range r.BySolver {
			bySolver[s] += n
		}
		ho, hd := 0, 0
		for l, n := range r.Obligations {
			ho += n
			hd += r.Discharged[l]
			x := perLabel[l]
			perLabel[l] = [2]int{x[0] + n, x[1] + r.Discharged[l]}
		}
		obl += ho
		dis += hd
		impl += r.Implicit
		implOK += r.ImplicitOK
		for _, f := range r.Funcs {
			if g, ok := funcs[f.Name]; !ok || f.InstrsExecuted > g.InstrsExecuted {
				funcs[f.Name] = f
			}
		}
		for _, s := range r.Stubs {
			stubs[s] = true
		}
		for l, n := range r.Reached {
			reach[l] += n
		}
		var viol []interface{}
		for _, v := range r.Violations {
			viol = append(viol, map[string]interface{}{"label": v.Label, "kind": v.Kind, "vars": v.Vars, "choices": v.Choices,
				"reproduced_in_engine": v.Reproduced, "native": v.Native, "facts": v.Facts})
		}
		harnesses = append(harnesses, map[string]interface{}{
			"harness": entries[k].Func, "package": entries[k].Pkg, "bounds": entries[k].Bounds, "decides": entries[k].Decides,
			"paths": r.Paths, "branch_decisions": r.Transitions, "solver_queries": r.Queries,
			"explicit_obligations": ho, "explicit_discharged": hd, "implicit_panic_obligations": r.Implicit, "implicit_discharged": r.ImplicitOK,
			"solver_seconds": r.SolverTime.Seconds(), "wall_seconds": r.Wall.Seconds(), "path_outcomes": r.Aborted,
			"violations": viol, "incomplete": r.Incomplete, "native_replay_capable": entries[k].Native,
		})
		for _, s := range r.SamplePaths {
			if len(samples) < 6 {
				samples = append(samples, map[string]string{"harness": entries[k].Func, "path": s})
			}
		}
	}
	if len(samples) == 0 {
		samples = append(samples, "no path completed")
	}
	var flist []sx.FuncCov
	for _, f := range funcs {
		flist = append(flist, f)
	}
	sort.Slice(flist, func(a, b int) bool { return flist[a].Name < flist[b].Name })
	var slist []string
	for s := range stubs {
		slist = append(slist, s)
	}
	sort.Strings(slist)
	labels := map[string]interface{}{}
	for l, x := range perLabel {
		labels[l] = map[string]int{"generated": x[0], "discharged": x[1]}
	}
	if states < 1 {
		states = 1
	}
	if trans < 1 {
		trans = 1
	}
	ev := map[string]interface{}{
		"property_id": prop,
		"tier":        tier,
		"seed":        seed,
		"level":       "model_checking",
		"wall_s":      wall.Seconds(),
		"violations":  nviol,
		"assumptions": append(append([]string{}, spec.Assumptions...), "outside the claim: "+fmt.Sprint(spec.Outside)),
		"coverage": map[string]interface{}{
			"states":                        states,
			"transitions":                   trans,
			"traces_validated_against_impl": nativeRuns,
			"samples":                       samples,
			"exhaustive":                    false,
			"explanation": "states = symbolic paths explored to completion (each path = one equivalence class of inputs/choices decided by the SMT solver); " +
				"transitions = feasible branch alternatives found by solver queries; every obligation is a separate solver query pc ∧ ¬assertion; " +
				"the encoding is regenerated from /repo's working tree (go/packages + go/ssa) on this run",
			"technique":                  "bounded symbolic execution of go/ssa with SMT (z3 5.1 incremental, cvc5 --solve-bv-as-int fall-back)",
			"harnesses":                  harnesses,
			"functions_encoded":          flist,
			"obligations":                obl + impl,
			"discharged":                 dis + implOK,
			"explicit_obligations":       obl,
			"explicit_discharged":        dis,
			"implicit_panic_obligations": impl,
			"obligations_by_label":       labels,
			"solver_queries":             queries,
			"solver_fallback_queries":    fallbacks,
			"queries_by_solver":          bySolver,
			"solver_seconds":             solverS,
			"load_and_ssa_build_seconds": loadDur.Seconds(),
			"environment_stubs":          slist,
			"reach_witnesses":            reach,
			"known_findings_printed":     known,
			"incomplete":                 inconcl,
			"outside_the_claim":          spec.Outside,
		},
	}
	b, _ := json.MarshalIndent(ev, "", " ")
	dir := filepath.Join(verifDir, "evidence")
	os.MkdirAll(dir, 0755)
	if err := os.WriteFile(filepath.Join(dir, prop+".json"), b, 0644); err != nil {
		fmt.Println("cannot write evidence:", err)
	}
}
