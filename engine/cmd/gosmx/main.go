// gosmx: bounded symbolic execution of bazel-remote's go/ssa with SMT solvers.
package main

import (
	"crypto/sha1"
	"encoding/json"
	"flag"
	"fmt"
	"os"
	"os/exec"
	"path/filepath"
	"sort"
	"strings"
	"time"

	"golang.org/x/tools/go/packages"
	"golang.org/x/tools/go/ssa"
	"golang.org/x/tools/go/ssa/ssautil"

	"gosmx/sx"
)

type Entry struct {
	Pkg      string   `json:"pkg"`   // package dir relative to /repo, e.g. ./cache/disk
	Func     string   `json:"func"`  // harness entry point
	Files    []string `json:"files"` // harness files (relative to /verif/harness/<pkg>)
	Extra    []string `json:"extra,omitempty"` // further overlay files, relative to /verif/harness
	Tier     string   `json:"tier"`  // "quick" (also run in thorough) or "thorough"
	Native   bool     `json:"native"`
	Unwind   int      `json:"unwind,omitempty"`
	Switches int      `json:"switches,omitempty"`
	BlockChoices bool `json:"block_choices,omitempty"`
	YieldUnlock  bool `json:"yield_unlock,omitempty"`
	Races        bool `json:"races,omitempty"`
	Strings  bool     `json:"strings,omitempty"`
	MaxPaths int      `json:"max_paths,omitempty"`
	TimeoutS int      `json:"timeout_s,omitempty"`
	Conc     int      `json:"concretize,omitempty"`
	Bounds   string   `json:"bounds"`
	Decides  string   `json:"decides"`
}

type PropSpec struct {
	ID          string   `json:"id"`
	Entries     []Entry  `json:"entries"`
	Assumptions []string `json:"assumptions"`
	Outside     []string `json:"outside"`
	OptionalWitnesses []string `json:"optional_witnesses,omitempty"`
}

type Known struct {
	Property string            `json:"property"`
	Harness  string            `json:"harness"`
	Label    string            `json:"label"`
	Facts    map[string]string `json:"facts,omitempty"`
	What     string            `json:"what"`
}

var (
	verifDir = "/verif"
	repoDir  = "/repo"
)

func die(code int, f string, a ...interface{}) {
	fmt.Printf("gosmx: "+f+"\n", a...)
	os.Exit(code)
}

func main() {
	if len(os.Args) < 2 {
		die(2, "usage: gosmx check|replay|list ...")
	}
	if v := os.Getenv("VERIF_DIR"); v != "" {
		verifDir = v
	}
	if v := os.Getenv("VERIF_REPO"); v != "" {
		repoDir = v
	}
	sx.RepoRoot = repoDir
	// use the Go toolchain /repo needs (go.mod: go 1.25.0), offline
	if tcs, _ := filepath.Glob("/root/go/pkg/mod/golang.org/toolchain@v0.0.1-go1.25*.linux-amd64/bin"); len(tcs) > 0 {
		os.Setenv("PATH", tcs[0]+":"+os.Getenv("PATH"))
	}
	os.Setenv("GOTOOLCHAIN", "local")
	os.Setenv("GOFLAGS", "-mod=mod")
	os.Setenv("GOPROXY", "off")
	os.Setenv("GOSUMDB", "off")
	switch os.Args[1] {
	case "check":
		cmdCheck(os.Args[2:])
	case "replay":
		cmdReplay(os.Args[2:])
	default:
		die(2, "unknown command %s", os.Args[1])
	}
}

func loadRegistry() map[string]*PropSpec {
	b, err := os.ReadFile(filepath.Join(verifDir, "harness", "registry.json"))
	if err != nil {
		die(2, "cannot read registry: %v", err)
	}
	var specs []*PropSpec
	if err := json.Unmarshal(b, &specs); err != nil {
		die(2, "registry.json: %v", err)
	}
	m := map[string]*PropSpec{}
	for _, s := range specs {
		m[s.ID] = s
	}
	return m
}

func loadKnown() []Known {
	b, err := os.ReadFile(filepath.Join(verifDir, "known_findings.jsonl"))
	if err != nil {
		return nil
	}
	var out []Known
	for _, l := range strings.Split(string(b), "\n") {
		l = strings.TrimSpace(l)
		if !strings.HasPrefix(l, "{") {
			continue // comments and "fixed:" lines suppress nothing
		}
		var k Known
		if json.Unmarshal([]byte(l), &k) == nil {
			out = append(out, k)
		}
	}
	return out
}

func matchKnown(ks []Known, prop string, v *sx.Violation) *Known {
	for k := range ks {
		kn := &ks[k]
		if kn.Property != prop || kn.Harness != v.Harness || kn.Label != v.Label {
			continue
		}
		ok := true
		for f, want := range kn.Facts {
			if v.Facts[f] != want {
				ok = false
			}
		}
		if ok {
			return kn
		}
	}
	return nil
}

// overlay maps harness files into /repo.
func buildOverlay(entries []Entry) (map[string][]byte, []string) {
	ov := map[string][]byte{}
	add := func(src, dst string) {
		b, err := os.ReadFile(src)
		if err != nil {
			die(2, "harness file: %v", err)
		}
		ov[dst] = b
	}
	hdir := filepath.Join(verifDir, "harness")
	for _, sub := range []string{"zzverif/vsym", "zzverif/vmodel"} {
		fs, _ := filepath.Glob(filepath.Join(hdir, sub, "*.go"))
		for _, f := range fs {
			add(f, filepath.Join(repoDir, sub, filepath.Base(f)))
		}
	}
	pkgs := map[string]bool{}
	for _, e := range entries {
		pkgs[e.Pkg] = true
		rel := strings.TrimPrefix(e.Pkg, "./")
		commons, _ := filepath.Glob(filepath.Join(hdir, rel, "zz_verif_common*.go"))
		for _, f := range commons {
			add(f, filepath.Join(repoDir, rel, filepath.Base(f)))
		}
		for _, f := range e.Files {
			add(filepath.Join(hdir, rel, f), filepath.Join(repoDir, rel, f))
		}
		if b, err := os.ReadFile(filepath.Join(hdir, rel, "zz_verif_deps.txt")); err == nil {
			for _, f := range strings.Fields(string(b)) {
				add(filepath.Join(hdir, f), filepath.Join(repoDir, f))
			}
		}
		for _, f := range e.Extra {
			add(filepath.Join(hdir, f), filepath.Join(repoDir, f))
		}
	}
	var ps []string
	for p := range pkgs {
		ps = append(ps, p)
	}
	sort.Strings(ps)
	return ov, ps
}

func loadProgram(ov map[string][]byte, pkgPaths []string) (*ssa.Program, map[string]*ssa.Package, time.Duration) {
	t0 := time.Now()
	cfg := &packages.Config{Mode: packages.LoadAllSyntax, Dir: repoDir, Env: append(os.Environ(), "CGO_ENABLED=0", "GOFLAGS=-mod=mod", "GOPROXY=off", "GOSUMDB=off"), Overlay: ov}
	pkgs, err := packages.Load(cfg, append(append([]string{}, pkgPaths...), "./zzverif/vmodel")...)
	if err != nil {
		die(2, "INCONCLUSIVE: load failed: %v", err)
	}
	nerr := 0
	packages.Visit(pkgs, nil, func(p *packages.Package) {
		for _, e := range p.Errors {
			if nerr < 20 {
				fmt.Println("load error:", e)
			}
			nerr++
		}
	})
	if nerr > 0 {
		die(2, "INCONCLUSIVE: /repo (with harness overlay) does not type-check: %d errors", nerr)
	}
	prog, spkgs := ssautil.AllPackages(pkgs, ssa.InstantiateGenerics)
	prog.Build()
	m := map[string]*ssa.Package{}
	for k, p := range pkgs {
		rel := "./" + strings.TrimPrefix(strings.TrimPrefix(p.PkgPath, sx.RepoPrefix), "/")
		if rel == "./" {
			rel = "."
		}
		m[rel] = spkgs[k]
	}
	return prog, m, time.Since(t0)
}

func cmdCheck(args []string) {
	fs := flag.NewFlagSet("check", flag.ExitOnError)
	prop := fs.String("prop", "", "property id")
	tier := fs.String("tier", "quick", "quick|thorough")
	only := fs.String("only", "", "run only this harness function")
	workers := fs.Int("workers", 14, "parallel workers")
	verbose := fs.Bool("v", false, "verbose")
	noEvidence := fs.Bool("no-evidence", false, "do not write the evidence file")
	record := fs.Bool("record-witnesses", false, "record the Reach witnesses hit by each harness as the expected set")
	allLabels2 := fs.Bool("all-labels", false, "check obligations tagged with other properties too")
	fs.Parse(args)
	t0 := time.Now()
	reg := loadRegistry()
	spec := reg[*prop]
	if spec == nil {
		die(2, "no harnesses registered for property %q", *prop)
	}
	var entries []Entry
	for _, e := range spec.Entries {
		if *only != "" && e.Func != *only {
			continue
		}
		if e.Tier == "thorough" && *tier != "thorough" {
			continue
		}
		if e.Tier == "quick-only" && *tier == "thorough" {
			continue
		}
		entries = append(entries, e)
	}
	if len(entries) == 0 {
		die(2, "no entries selected")
	}
	ov, pkgPaths := buildOverlay(entries)
	prog, pkgs, loadDur := loadProgram(ov, pkgPaths)
	models := sx.NewModelIndex(prog)
	workDir := filepath.Join(verifDir, ".work", fmt.Sprintf("%s-%d", *prop, os.Getpid()))
	os.MkdirAll(workDir, 0755)
	defer os.RemoveAll(workDir)
	seed := int64(0)
	fmt.Sscan(os.Getenv("VERIF_SEED"), &seed)

	known := loadKnown()
	if *only == "" {
		os.RemoveAll(filepath.Join(verifDir, "replays", *prop))
	}
	var results []sx.Result
	exit := 0
	var violLines, knownLines, inconcl []string
	nativeRuns := 0
	for _, e := range entries {
		p := pkgs[e.Pkg]
		if p == nil {
			die(2, "package %s not loaded", e.Pkg)
		}
		fn := p.Func(e.Func)
		if fn == nil {
			die(2, "INCONCLUSIVE: harness %s.%s not found", e.Pkg, e.Func)
		}
		cfg := sx.DefaultConfig()
		cfg.Workers = *workers
		cfg.WorkDir = workDir
		cfg.Seed = seed
		cfg.Property = *prop
		if *allLabels2 {
			cfg.Property = ""
		}
		if e.Unwind > 0 {
			cfg.Unwind = e.Unwind
		}
		if e.Switches > 0 {
			cfg.MaxSwitches = e.Switches
		}
		if e.Switches < 0 {
			cfg.MaxSwitches = 0
		}
		cfg.BlockChoices = e.BlockChoices
		cfg.YieldUnlock = e.YieldUnlock
		cfg.Races = e.Races
		cfg.Strings = e.Strings
		if e.MaxPaths > 0 {
			cfg.MaxPaths = e.MaxPaths
		}
		if e.TimeoutS > 0 {
			cfg.Timeout = time.Duration(e.TimeoutS) * time.Second
		}
		if e.Conc > 0 {
			cfg.ConcretizeLimit = e.Conc
		}
		res := sx.Run(prog, fn, cfg, models)
		results = append(results, res)
		nob, ndis := 0, 0
		for _, n := range res.Obligations {
			nob += n
		}
		for _, n := range res.Discharged {
			ndis += n
		}
		fmt.Printf("harness %-34s paths=%-6d queries=%-7d obligations=%d/%d implicit=%d/%d solver=%.1fs wall=%.1fs violations=%d\n",
			e.Func, res.Paths, res.Queries, ndis, nob, res.ImplicitOK, res.Implicit, res.SolverTime.Seconds(), res.Wall.Seconds(), len(res.Violations))
		if *verbose {
			fmt.Printf("   aborted=%v reached=%v bysolver=%v\n", res.Aborted, res.Reached, res.BySolver)
		}
		for why, n := range res.Incomplete {
			inconcl = append(inconcl, fmt.Sprintf("%s: %s (x%d)", e.Func, why, n))
		}
		seenLabel := map[string]bool{}
		for _, v := range res.Violations {
			if kn := matchKnown(known, *prop, v); kn != nil {
				line := fmt.Sprintf("KNOWN-FINDING: property=%s %s [%s: %s]", *prop, kn.What, v.Harness, v.Label)
				if !seenLabel["k"+v.Label] {
					knownLines = append(knownLines, line)
				}
				seenLabel["k"+v.Label] = true
				continue
			}
			if !v.Reproduced {
				if os.Getenv("GOSMX_DEBUG_UNREPRO") != "" {
					fmt.Println("UNREPRODUCED replay:", writeReplay(*prop, e, v))
				}
				inconcl = append(inconcl, fmt.Sprintf("%s: counterexample for %q did not reproduce in concrete re-execution (encoding problem)", e.Func, v.Label))
				continue
			}
			if seenLabel[v.Label] {
				continue
			}
			seenLabel[v.Label] = true
			rp := writeReplay(*prop, e, v)
			if e.Native && v.Kind != "deadlock" {
				ok, out := nativeReplay(e, v, rp)
				nativeRuns++
				if ok {
					v.Native = "reproduced natively (go test -overlay)"
				} else {
					v.Native = "NOT reproduced natively: " + out
					inconcl = append(inconcl, fmt.Sprintf("%s: counterexample for %q reproduced in the engine but not natively: %s", e.Func, v.Label, clip(out, 300)))
					continue
				}
			} else {
				v.Native = "engine concrete re-execution only (harness uses environment models)"
			}
			violLines = append(violLines, fmt.Sprintf("VIOLATION property=%s replay=%s  # %s: %s [%s] facts=%v", *prop, rp, e.Func, v.Label, v.Native, v.Facts))
		}
	}
	wfile := filepath.Join(verifDir, "harness", "witnesses.json")
	recorded := map[string][]string{}
	if b, err := os.ReadFile(wfile); err == nil {
		json.Unmarshal(b, &recorded)
	}
	if *record {
		for k, e := range entries {
			var ls []string
			for l, n := range results[k].Reached {
				if n > 0 {
					ls = append(ls, l)
				}
			}
			sort.Strings(ls)
			recorded[e.Func] = ls
		}
		b, _ := json.MarshalIndent(recorded, "", " ")
		os.WriteFile(wfile, b, 0644)
	} else {
		for k, e := range entries {
			want, ok := recorded[e.Func]
			if !ok {
				inconcl = append(inconcl, fmt.Sprintf("%s: no recorded reachability witnesses (run with -record-witnesses on the unchanged tree)", e.Func))
				continue
			}
			for _, l := range want {
				if results[k].Reached[l] == 0 {
					inconcl = append(inconcl, fmt.Sprintf("%s: VACUOUS: witness %q (reached on the unchanged tree) was not reached", e.Func, l))
				}
			}
		}
	}
	for _, l := range knownLines {
		fmt.Println(l)
	}
	for _, l := range inconcl {
		fmt.Println("INCONCLUSIVE:", l)
	}
	for _, l := range violLines {
		fmt.Println(l)
	}
	if len(violLines) > 0 {
		exit = 1
	} else if len(inconcl) > 0 {
		exit = 2
	}
	if !*noEvidence {
		writeEvidence(*prop, *tier, seed, spec, entries, results, loadDur, time.Since(t0), len(violLines), knownLines, inconcl, nativeRuns)
	}
	if exit == 0 {
		fmt.Printf("PASS property=%s tier=%s wall=%.1fs\n", *prop, *tier, time.Since(t0).Seconds())
	}
	os.Exit(exit)
}

func clip(s string, n int) string {
	if len(s) > n {
		return s[:n] + "…"
	}
	return s
}

type replayFile struct {
	Property string           `json:"property"`
	Pkg      string           `json:"pkg"`
	Func     string           `json:"func"`
	Files    []string         `json:"files"`
	Extra    []string         `json:"extra,omitempty"`
	Label    string           `json:"label"`
	Kind     string           `json:"kind"`
	Vars     map[string]int64 `json:"vars"`
	SVars    map[string]string `json:"svars,omitempty"`
	Choices  []int64          `json:"choices"`
	Facts    map[string]string `json:"facts,omitempty"`
	Native   bool             `json:"native"`
	Trace    []int64          `json:"trace"`
	Oracle   []int64          `json:"oracle"`
}

func writeReplay(prop string, e Entry, v *sx.Violation) string {
	dir := filepath.Join(verifDir, "replays", prop)
	os.MkdirAll(dir, 0755)
	h := sha1.Sum([]byte(v.Label))
	p := filepath.Join(dir, fmt.Sprintf("%s-%x.json", e.Func, h[:4]))
	b, _ := json.MarshalIndent(replayFile{prop, e.Pkg, e.Func, e.Files, e.Extra, v.Label, v.Kind, v.Vars, v.SVars, v.Choices, v.Facts, e.Native, v.Trace, v.Oracle}, "", " ")
	os.WriteFile(p, b, 0644)
	return p
}

// nativeReplay runs the harness as an ordinary go test against the real build.
func nativeReplay(e Entry, v *sx.Violation, replayPath string) (bool, string) {
	ov, _ := buildOverlay([]Entry{e})
	rel := strings.TrimPrefix(e.Pkg, "./")
	tmp, _ := os.MkdirTemp(filepath.Join(verifDir, ".work"), "native")
	defer os.RemoveAll(tmp)
	repl := map[string]string{}
	k := 0
	for dst, b := range ov {
		f := filepath.Join(tmp, fmt.Sprintf("f%d.go", k))
		k++
		os.WriteFile(f, b, 0644)
		repl[dst] = f
	}
	// the test driver
	pkgName := ""
	for dst, b := range ov {
		if strings.HasPrefix(dst, filepath.Join(repoDir, rel)+"/zz_verif_") {
			for _, l := range strings.Split(string(b), "\n") {
				if strings.HasPrefix(l, "package ") {
					pkgName = strings.TrimSpace(strings.TrimPrefix(l, "package "))
					break
				}
			}
		}
	}
	test := fmt.Sprintf(`package %s

import (
	"testing"
	"%s/zzverif/vsym"
)

func TestVerifReplay(t *testing.T) {
	vsym.LoadReplay()
	%s()
	if f := vsym.Failed(); len(f) > 0 {
		t.Fatalf("VERIF-ASSERT-FAILED %%q", f)
	}
}
`, pkgName, sx.RepoPrefix, e.Func)
	tf := filepath.Join(tmp, "replay_test.go")
	os.WriteFile(tf, []byte(test), 0644)
	repl[filepath.Join(repoDir, rel, "zz_verif_replay_test.go")] = tf
	ob, _ := json.Marshal(map[string]interface{}{"Replace": repl})
	of := filepath.Join(tmp, "overlay.json")
	os.WriteFile(of, ob, 0644)
	cmd := exec.Command("timeout", "600", "go", "test", "-vet=off", "-count=1", "-overlay", of, "-run", "^TestVerifReplay$", e.Pkg)
	cmd.Dir = repoDir
	cmd.Env = append(os.Environ(), "VERIF_REPLAY="+replayPath, "GOFLAGS=-mod=mod", "GOPROXY=off", "GOSUMDB=off")
	out, err := cmd.CombinedOutput()
	s := string(out)
	if os.Getenv("GOSMX_NATIVE_OUT") != "" {
		fmt.Println(s)
	}
	if err == nil {
		return false, "native test passed"
	}
	if strings.Contains(s, "VERIF-ASSUME-VIOLATED") {
		return false, "replay vector violates an Assume natively"
	}
	if v.Kind == "assert" {
		if strings.Contains(s, "VERIF-ASSERT-FAILED") && strings.Contains(s, v.Label) {
			return true, ""
		}
		return false, lastLines(s, 6)
	}
	if strings.Contains(s, "panic:") || strings.Contains(s, "VERIF-ASSERT-FAILED") || strings.Contains(s, "test timed out") {
		return true, ""
	}
	return false, lastLines(s, 6)
}

func lastLines(s string, n int) string {
	ls := strings.Split(strings.TrimSpace(s), "\n")
	if len(ls) > n {
		ls = ls[len(ls)-n:]
	}
	return strings.Join(ls, " | ")
}

func cmdReplay(args []string) {
	if len(args) < 1 {
		die(2, "usage: gosmx replay <file>")
	}
	b, err := os.ReadFile(args[0])
	if err != nil {
		die(2, "%v", err)
	}
	var rf replayFile
	if err := json.Unmarshal(b, &rf); err != nil {
		die(2, "%v", err)
	}
	e := Entry{Pkg: rf.Pkg, Func: rf.Func, Files: rf.Files, Extra: rf.Extra, Native: rf.Native}
	ov, pkgPaths := buildOverlay([]Entry{e})
	prog, pkgs, _ := loadProgram(ov, pkgPaths)
	fn := pkgs[e.Pkg].Func(e.Func)
	if fn == nil {
		die(2, "harness not found")
	}
	if os.Getenv("GOSMX_BRANCHLOG") != "" {
		fmt.Fprintln(os.Stderr, "==== symbolic run of the recorded path")
		sx.ReplaySymbolic(prog, fn, rf.Trace, filepath.Join(verifDir, ".work"))
		fmt.Fprintln(os.Stderr, "==== concrete run")
	}
	failed := sx.ReplayConcrete(prog, fn, rf.Vars, rf.SVars, rf.Choices, rf.Oracle)
	fmt.Printf("engine concrete re-execution of %s: failed obligations: %q\n", rf.Func, failed)
	ok := false
	for _, l := range failed {
		if sx.SameFailure(rf.Label, l) {
			ok = true
		}
	}
	if rf.Native {
		v := &sx.Violation{Label: rf.Label, Kind: rf.Kind}
		nok, out := nativeReplay(e, v, args[0])
		fmt.Printf("native replay (go test -overlay): reproduced=%v %s\n", nok, out)
		ok = ok && nok
	}
	if ok {
		fmt.Printf("VIOLATION property=%s replay=%s  # reproduced: %s\n", rf.Property, args[0], rf.Label)
		os.Exit(1)
	}
	fmt.Println("not reproduced on the current tree")
}
