package sx

import (
	"fmt"
	"go/token"
	"go/types"
	"os"
	"runtime/debug"
	"sort"
	"strings"
	"sync"
	"time"

	"golang.org/x/tools/go/ssa"
)

type FuncCov struct {
	Name            string `json:"name"`
	BlocksExecuted  int    `json:"blocks_executed"`
	BlocksTotal     int    `json:"blocks_total"`
	InstrsExecuted  int    `json:"instrs_executed"`
	InstrsTotal     int    `json:"instrs_total"`
}

type Result struct {
	Harness      string
	Paths        int
	Transitions  int
	Queries      int
	Fallbacks    int
	BySolver     map[string]int
	SolverTime   time.Duration
	Wall         time.Duration
	Obligations  map[string]int
	Discharged   map[string]int
	Implicit     int
	ImplicitOK   int
	Violations   []*Violation
	Reached      map[string]int
	ReachLabels  []string // labels present in executed code
	Incomplete   map[string]int
	Aborted      map[string]int
	Funcs        []FuncCov
	Stubs        []string
	SamplePaths  []string
}

type worker struct {
	prog     *ssa.Program
	cfg      *Config
	harness  string
	sol      *solver
	declared map[string]bool
	cover    map[*ssa.Function][]bool
	icache   map[*ssa.Function]externalFn
	inoIntercept map[*ssa.Function]bool
	models   *modelIndex

	transitions int
	obligations map[string]int
	discharged  map[string]int
	implicit    int
	implicitOK  int
	violations  []*Violation
	violCount   map[string]int
	reached     map[string]int
	incompl     map[string]int
	aborted     map[string]int
	stubs       map[string]bool
	paths       int
	samples     []string
}

func (w *worker) incomplete(why string) { w.incompl[why]++ }

func (w *worker) coverFor(fn *ssa.Function) []bool {
	c := w.cover[fn]
	if c == nil {
		c = make([]bool, len(fn.Blocks))
		w.cover[fn] = c
	}
	return c
}

func newWorker(prog *ssa.Program, cfg *Config, harness string, models *modelIndex, withSolver bool) *worker {
	w := &worker{prog: prog, cfg: cfg, harness: harness, declared: map[string]bool{}, cover: map[*ssa.Function][]bool{},
		icache: map[*ssa.Function]externalFn{}, inoIntercept: map[*ssa.Function]bool{}, models: models,
		obligations: map[string]int{}, discharged: map[string]int{}, violCount: map[string]int{}, reached: map[string]int{},
		incompl: map[string]int{}, aborted: map[string]int{}, stubs: map[string]bool{}}
	if withSolver {
		kind := "z3"
		if cfg.Strings {
			kind = "cvc5"
		}
		w.sol = newSolver(cfg.WorkDir, cfg.SolverCapMs, kind)
	}
	return w
}

// runPath executes entry once under the decision prefix (or concretely).
func (w *worker) runPath(entry *ssa.Function, prefix []int64, replay *Replay) (newWork [][]int64) {
	pm := &pathMgr{w: w, sol: w.sol, cfg: w.cfg, concrete: replay}
	pm.beginRun(prefix)
	i := &interpreter{prog: w.prog, globals: map[*ssa.Global]*value{}, sizes: types.SizesFor("gc", "amd64"), pm: pm, w: w,
		inited: map[*ssa.Package]bool{}, mutexes: map[*value]*mutexState{}, wgs: map[*value]*int64{}, onces: map[*value]*bool{},
		host: map[string]interface{}{}}
	i.initThreads()
	func() {
		defer func() {
			r := recover()
			i.killThreads()
			i.hostWG.Wait()
			if r == nil {
				w.aborted["completed"]++
				return
			}
			if os.Getenv("GOSMX_TRACE") != "" {
				if _, ok := r.(pathAbort); !ok {
					fmt.Fprintf(os.Stderr, "TRACE %v\n   %s\n", r, strings.Join(i.traceback, "\n   "))
				}
			}
			switch r := r.(type) {
			case pathAbort:
				w.aborted[firstWords(r.why, 2)]++
			case engineError:
				w.incomplete("engine: " + r.msg)
			case solverUnknown:
				w.incomplete("solver unknown: " + r.what)
			case unwindExceeded:
				w.incomplete("unwind bound exceeded: " + r.where)
			case hangDetected:
				w.violation(pm, "hang", "HANG: loop makes no progress in "+r.where)
			case deadlock:
				w.violation(pm, "deadlock", "DEADLOCK: "+r.msg)
			case runtimePanic:
				w.violation(pm, "panic", "PANIC: "+r.msg)
			case targetPanic:
				w.violation(pm, "panic", "PANIC: explicit panic("+summarise(r.v)+") at "+r.pos)
			default:
				w.incomplete(fmt.Sprintf("engine crash: %v\n%s", r, trimStack(debug.Stack())))
			}
		}()
		i.ensureInit(entry.Pkg)
		call(i, nil, token.NoPos, entry, nil)
	}()
	w.paths++
	if replay == nil && len(w.samples) < 3 {
		w.samples = append(w.samples, fmt.Sprintf("decisions=%v pc=%s", pm.trace, clip(strings.Join(pm.pc, " ∧ "), 600)))
	}
	pm.endRun()
	return pm.newWork
}

func clip(s string, n int) string {
	if len(s) > n {
		return s[:n] + "…"
	}
	return s
}

func trimStack(b []byte) string {
	lines := strings.Split(string(b), "\n")
	var out []string
	for _, l := range lines {
		if strings.Contains(l, "gosmx/sx.") && !strings.Contains(l, "runPath") && !strings.Contains(l, "visitInstr") && !strings.Contains(l, "callSSA") && !strings.Contains(l, "runFrame") {
			out = append(out, strings.TrimSpace(l))
		}
		if len(out) >= 6 {
			break
		}
	}
	return strings.Join(out, " < ")
}

func summarise(v value) string {
	if f, ok := v.(iface); ok {
		v = f.v
	}
	switch x := v.(type) {
	case string:
		return x
	case *sstr:
		return x.String()
	}
	return clip(toString(v), 80)
}

func firstWords(s string, n int) string {
	f := strings.Fields(s)
	if len(f) > n {
		f = f[:n]
	}
	return strings.Join(f, " ")
}

func (w *worker) violation(pm *pathMgr, kind, label string) {
	if pm.concrete != nil {
		pm.concrete.failed = append(pm.concrete.failed, label)
		return
	}
	w.implicit++
	m, ok := pm.model()
	if !ok {
		w.incomplete("no model for " + label)
	}
	pm.recordViolation(kind, label, m)
}

// Run explores all paths of one harness entry point.
func Run(prog *ssa.Program, entry *ssa.Function, cfg Config, models *modelIndex) Result {
	t0 := time.Now()
	name := entry.Name()
	var mu sync.Mutex
	cond := sync.NewCond(&mu)
	work := [][]int64{{}}
	busy := 0
	pathsStarted := 0
	stop := false
	reason := ""
	nw := cfg.Workers
	if nw < 1 {
		nw = 1
	}
	workers := make([]*worker, nw)
	var wg sync.WaitGroup
	for k := 0; k < nw; k++ {
		workers[k] = newWorker(prog, &cfg, name, models, true)
		wg.Add(1)
		go func(w *worker) {
			defer wg.Done()
			defer w.sol.close()
			for {
				mu.Lock()
				for len(work) == 0 && busy > 0 && !stop {
					cond.Wait()
				}
				if stop || (len(work) == 0 && busy == 0) {
					mu.Unlock()
					cond.Broadcast()
					return
				}
				p := work[len(work)-1]
				work = work[:len(work)-1]
				busy++
				pathsStarted++
				if pathsStarted > cfg.MaxPaths {
					stop, reason = true, fmt.Sprintf("path limit %d reached", cfg.MaxPaths)
				}
				if time.Since(t0) > cfg.Timeout {
					stop, reason = true, fmt.Sprintf("time limit %v reached", cfg.Timeout)
				}
				mu.Unlock()
				nw := w.runPath(entry, p, nil)
				mu.Lock()
				work = append(work, nw...)
				busy--
				mu.Unlock()
				cond.Broadcast()
			}
		}(workers[k])
	}
	wg.Wait()

	res := Result{Harness: name, BySolver: map[string]int{}, Obligations: map[string]int{}, Discharged: map[string]int{},
		Reached: map[string]int{}, Incomplete: map[string]int{}, Aborted: map[string]int{}}
	cover := map[*ssa.Function][]bool{}
	stubs := map[string]bool{}
	for _, w := range workers {
		res.Paths += w.paths
		res.Transitions += w.transitions
		res.Queries += w.sol.Queries
		res.Fallbacks += w.sol.Fallbacks
		res.SolverTime += w.sol.Dur
		for k, v := range w.sol.BySolver {
			res.BySolver[k] += v
		}
		for k, v := range w.obligations {
			res.Obligations[k] += v
		}
		for k, v := range w.discharged {
			res.Discharged[k] += v
		}
		res.Implicit += w.implicit
		res.ImplicitOK += w.implicitOK
		res.Violations = append(res.Violations, w.violations...)
		for k, v := range w.reached {
			res.Reached[k] += v
		}
		for k, v := range w.incompl {
			res.Incomplete[k] += v
		}
		for k, v := range w.aborted {
			res.Aborted[k] += v
		}
		for f, c := range w.cover {
			if cover[f] == nil {
				cover[f] = make([]bool, len(c))
			}
			for k, b := range c {
				if b {
					cover[f][k] = true
				}
			}
		}
		for s := range w.stubs {
			stubs[s] = true
		}
		if len(res.SamplePaths) < 3 {
			res.SamplePaths = append(res.SamplePaths, w.samples...)
		}
	}
	if stop {
		res.Incomplete[reason]++
	}
	labels := map[string]bool{}
	for f, c := range cover {
		collectReachLabels(f, labels)
		if f.Pkg == nil || !strings.HasPrefix(f.Pkg.Pkg.Path(), RepoPrefix) || strings.Contains(f.Pkg.Pkg.Path(), "/zzverif/") {
			continue
		}
		if pos := f.Pos(); pos.IsValid() && strings.Contains(prog.Fset.Position(pos).Filename, "zz_verif_") {
			continue
		}
		fc := FuncCov{Name: f.String(), BlocksTotal: len(c)}
		for k, b := range c {
			fc.InstrsTotal += len(f.Blocks[k].Instrs)
			if b {
				fc.BlocksExecuted++
				fc.InstrsExecuted += len(f.Blocks[k].Instrs)
			}
		}
		res.Funcs = append(res.Funcs, fc)
	}
	sort.Slice(res.Funcs, func(a, b int) bool { return res.Funcs[a].Name < res.Funcs[b].Name })
	for l := range labels {
		res.ReachLabels = append(res.ReachLabels, l)
	}
	sort.Strings(res.ReachLabels)
	for s := range stubs {
		res.Stubs = append(res.Stubs, s)
	}
	sort.Strings(res.Stubs)
	// deduplicate violations by label, keep the shortest trace first
	sort.SliceStable(res.Violations, func(a, b int) bool {
		if res.Violations[a].Label != res.Violations[b].Label {
			return res.Violations[a].Label < res.Violations[b].Label
		}
		return len(res.Violations[a].Trace) < len(res.Violations[b].Trace)
	})
	// concrete re-execution of each reported violation
	rw := newWorker(prog, &cfg, name, models, false)
	seen := map[string]int{}
	var kept []*Violation
	for _, v := range res.Violations {
		seen[v.Label]++
		if seen[v.Label] > cfg.MaxViolPerLabel {
			continue
		}
		kept = append(kept, v)
		rp := &Replay{Vars: v.Vars, SVars: v.SVars, Choices: v.Choices, Oracle: v.Oracle}
		rw.runPath(entry, nil, rp)
		for _, l := range rp.failed {
			if SameFailure(v.Label, l) {
				v.Reproduced = true
			}
		}
		if !v.Reproduced {
			fmt.Fprintf(os.Stderr, "gosmx: counterexample for %q did not reproduce concretely (failed: %v, incomplete: %v; model from %s: %v choices %v)\n", v.Label, rp.failed, rw.incompl, v.Solver, v.Vars, v.Choices)
		}
	}
	res.Violations = kept
	res.Wall = time.Since(t0)
	return res
}

const RepoPrefix = "github.com/buchgr/bazel-remote/v2"

func collectReachLabels(f *ssa.Function, labels map[string]bool) {
	for _, b := range f.Blocks {
		for _, ins := range b.Instrs {
			c, ok := ins.(*ssa.Call)
			if !ok {
				continue
			}
			if callee := c.Call.StaticCallee(); callee != nil && callee.String() == vsymPath+"Reach" {
				if k, ok := c.Call.Args[0].(*ssa.Const); ok {
					labels[constValue(k).(string)] = true
				}
			}
		}
	}
}

// SameFailure matches a reported obligation label with one observed in a
// concrete re-execution (panic texts differ in detail but not in position).
func SameFailure(want, got string) bool {
	if want == got {
		return true
	}
	lw, lg := strings.ToLower(want), strings.ToLower(got)
	if strings.HasPrefix(lw, "panic") && strings.HasPrefix(lg, "panic") {
		return atSuffix(want) == atSuffix(got)
	}
	return false
}

func atSuffix(s string) string {
	if k := strings.LastIndex(s, " at "); k >= 0 {
		return s[k:]
	}
	return s
}

// ReplayConcrete re-executes a harness with concrete values.
func ReplayConcrete(prog *ssa.Program, entry *ssa.Function, vars map[string]int64, svars map[string]string, choices, oracle []int64) []string {
	cfg := DefaultConfig()
	w := newWorker(prog, &cfg, entry.Name(), NewModelIndex(prog), false)
	rp := &Replay{Vars: vars, SVars: svars, Choices: choices, Oracle: oracle}
	w.runPath(entry, nil, rp)
	for why := range w.incompl {
		rp.failed = append(rp.failed, "INCOMPLETE: "+why)
	}
	return rp.failed
}

// ReplaySymbolic re-runs one recorded path symbolically (debugging aid).
func ReplaySymbolic(prog *ssa.Program, entry *ssa.Function, trace []int64, workDir string) {
	cfg := DefaultConfig()
	cfg.WorkDir = workDir
	w := newWorker(prog, &cfg, entry.Name(), NewModelIndex(prog), true)
	defer w.sol.close()
	w.runPath(entry, trace, nil)
	fmt.Fprintln(os.Stderr, "incomplete:", w.incompl, "violations:", len(w.violations))
}
