package sx

// Provenance of opaque byte buffers: which range of which abstract byte
// source a buffer region holds. Lets models of hashing / compression /
// files reason about megabytes of content with a few integers.

import (
	"fmt"
	"os"
	"go/token"
	"go/types"
)

type region struct {
	start, n value // absolute position in the object, length
	src      string
	srcOff   value
}

// must reports whether cond necessarily holds on the current path.
func (pm *pathMgr) must(c value) bool {
	switch c := c.(type) {
	case bool:
		return c
	case symv:
		if pm.concrete != nil {
			panic(engineError{"symbolic condition in concrete replay"})
		}
		return pm.checkSat("(not "+c.t+")") == "unsat"
	}
	panic(engineError{"must"})
}

func leV(a, b value) value { return binop(token.LEQ, tInt, toInt(a), toInt(b)) }
func eqV(a, b value) value { return binop(token.EQL, tInt, toInt(a), toInt(b)) }

func asSymslice(i *interpreter, v value, et types.Type) *symslice {
	switch x := v.(type) {
	case *symslice:
		return x
	case []value:
		o := &bobj{id: i.newID(), backing: x[:cap(x)], elemK: types.Uint8}
		return &symslice{obj: o, off: 0, n: len(x), c: cap(x), elem: et}
	}
	panic(engineError{fmt.Sprintf("asSymslice: %T", v)})
}

// fill records that p[0:n] now holds src[off:off+n).
func (i *interpreter) fill(p *symslice, n value, src string, off value) {
	o := p.obj
	i.writeClock++
	if os.Getenv("GOSMX_PROVDEBUG") != "" {
		fmt.Fprintf(os.Stderr, "FILL obj%d off=%v n=%v src=%s srcoff=%v backing=%v\n", o.id, p.off, n, src, off, o.backing != nil)
	}
	if o.backing != nil {
		// concrete backing: contents become opaque symbols lazily; we drop cells
		// in range when n is concrete, else mark lost.
		if nn, ok := toInt(n).(int); ok {
			if st, ok := toInt(p.off).(int); ok {
				for k := 0; k < nn; k++ {
					o.backing[st+k] = i.pm.fresh(fmt.Sprintf("%s@byte", src), o.elemK)
				}
			}
		}
	} else {
		o.cells = map[int]value{}
	}
	nr := region{start: toInt(p.off), n: toInt(n), src: src, srcOff: toInt(off)}
	if k := len(o.regions); k > 0 {
		last := &o.regions[k-1]
		if last.src == src && i.pm.must(eqV(addInt(last.start, last.n), nr.start)) && i.pm.must(eqV(addInt(last.srcOff, last.n), nr.srcOff)) {
			last.n = addInt(last.n, nr.n)
			return
		}
	}
	if st, ok := nr.start.(int); ok && st == 0 {
		o.regions = []region{nr}
		return
	}
	// keep only earlier regions that are provably disjoint from the new one
	var keep []region
	for _, r := range o.regions {
		if i.pm.must(leV(addInt(r.start, r.n), nr.start)) || i.pm.must(leV(addInt(nr.start, nr.n), r.start)) {
			keep = append(keep, r)
		}
	}
	o.regions = append(keep, nr)
}

// prov returns the source range held by p, if a single region covers it.
func (i *interpreter) prov(p *symslice) (string, value, bool) {
	o := p.obj
	if o.lost {
		return "", 0, false
	}
	for k := len(o.regions) - 1; k >= 0; k-- {
		r := o.regions[k]
		if i.pm.must(leV(r.start, p.off)) && i.pm.must(leV(addInt(p.off, p.n), addInt(r.start, r.n))) {
			return r.src, addInt(r.srcOff, subInt(p.off, r.start)), true
		}
	}
	if os.Getenv("GOSMX_PROVDEBUG") != "" {
		fmt.Fprintf(os.Stderr, "PROV FAIL obj%d off=%v n=%v lost=%v regions=%d\n", o.id, p.off, p.n, o.lost, len(o.regions))
		for _, r := range o.regions {
			fmt.Fprintf(os.Stderr, "   region start=%v n=%v src=%s off=%v\n", r.start, r.n, r.src, r.srcOff)
		}
	}
	return "", 0, false
}

func minInt(i *interpreter, a, b value) value {
	a, b = toInt(a), toInt(b)
	c := binop(token.LSS, tInt, a, b)
	if cb, ok := c.(bool); ok {
		if cb {
			return a
		}
		return b
	}
	return mkIte(c.(symv).t, a, b, types.Int)
}

func lenOf(v value) value {
	switch x := v.(type) {
	case []value:
		return len(x)
	case *symslice:
		return x.n
	}
	panic(engineError{fmt.Sprintf("lenOf %T", v)})
}

func (i *interpreter) copySym(fr *frame, dst, src value, pos token.Pos) value {
	n := minInt(i, lenOf(dst), lenOf(src))
	// Opaque (provenance-tracked) sources always transfer provenance, whether
	// or not the length happens to be concrete: the representation must not
	// depend on concreteness, so that concrete re-execution takes the same path.
	opaque := false
	if ss, ok := src.(*symslice); ok && (len(ss.obj.regions) > 0 || ss.obj.lost) {
		opaque = true
	}
	if nn, ok := n.(int); ok && nn <= 4096 && !opaque {
		for k := 0; k < nn; k++ {
			i.writeElem(dst, k, i.readElem(src, k))
		}
		return nn
	}
	d := asSymslice(i, dst, types.Typ[types.Uint8])
	s := asSymslice(i, src, types.Typ[types.Uint8])
	sub := &symslice{obj: s.obj, off: s.off, n: n, c: n, elem: s.elem}
	if sname, off, ok := i.prov(sub); ok {
		i.fill(d, n, sname, off)
	} else {
		d.obj.lost = true
		d.obj.regions = nil
		if d.obj.backing == nil {
			d.obj.cells = map[int]value{}
		}
	}
	return n
}

func (i *interpreter) readElem(s value, k int) value {
	switch x := s.(type) {
	case []value:
		return x[k]
	case *symslice:
		return x.obj.read(i, x, k)
	}
	panic(engineError{"readElem"})
}

func (i *interpreter) writeElem(s value, k int, v value) {
	switch x := s.(type) {
	case []value:
		x[k] = v
	case *symslice:
		x.obj.write(i, x, k, v)
	default:
		panic(engineError{"writeElem"})
	}
}

func (i *interpreter) appendSym(fr *frame, dst, src value, pos token.Pos) value {
	// append(x[:0], y...) with room: becomes a copy into x's storage
	if d, ok := dst.(*symslice); ok {
		if dn, ok := toInt(d.n).(int); ok && dn == 0 {
			n := lenOf(src)
			if i.pm.must(leV(n, d.c)) {
				view := &symslice{obj: d.obj, off: d.off, n: n, c: d.c, elem: d.elem}
				i.copySym(fr, view, src, pos)
				return view
			}
		}
	}
	if d, ok := dst.([]value); ok && len(d) == 0 {
		if s, ok := src.(*symslice); ok {
			// fresh storage holding a copy of src
			o := &bobj{id: i.newID(), cells: map[int]value{}, elemK: s.obj.elemK}
			view := &symslice{obj: o, off: 0, n: s.n, c: s.n, elem: s.elem}
			i.copySym(fr, view, src, pos)
			return view
		}
	}
	panic(engineError{"append on symbolic-length slices at " + fr.pos(pos)})
}

func init() {
	vsymFns["Fill"] = func(fr *frame, a []value) value {
		p := asSymslice(fr.i, a[0], types.Typ[types.Uint8])
		fr.i.fill(p, a[1], str(a[2]), a[3])
		return nil
	}
	vsymFns["Prov"] = func(fr *frame, a []value) value {
		p := asSymslice(fr.i, a[0], types.Typ[types.Uint8])
		s, off, ok := fr.i.prov(p)
		return tuple{s, conv(types.Typ[types.Int64], tInt, toInt(off)), ok}
	}
	vsymFns["MakeBytes"] = func(fr *frame, a []value) value {
		// opaque buffer of (possibly symbolic) length n
		o := &bobj{id: fr.i.newID(), cells: map[int]value{}, elemK: types.Uint8}
		n := toInt(a[0])
		return &symslice{obj: o, off: 0, n: n, c: n, elem: types.Typ[types.Uint8]}
	}
}
