package sx

import (
	"encoding/hex"
	"fmt"
	"go/token"
	"go/types"
	"path"
	"reflect"
	"regexp"
	"strconv"
	"strings"
	"unicode"
	"unicode/utf8"

	"golang.org/x/tools/go/ssa"
)

type externalFn func(fr *frame, args []value) value

type noopFn struct{ sig *types.Signature }

// hostObj wraps a host object (e.g. *regexp.Regexp) living behind a pointer.
type hostObj struct{ v interface{} }

type targetPanic struct {
	v   value
	pos string
}

func zeroResults(sig *types.Signature) value {
	switch sig.Results().Len() {
	case 0:
		return nil
	case 1:
		return zero(sig.Results().At(0).Type())
	}
	var t tuple
	for i := 0; i < sig.Results().Len(); i++ {
		t = append(t, zero(sig.Results().At(i).Type()))
	}
	return t
}

var stubbedPkgs = []string{
	"github.com/prometheus/", "log", "github.com/slok/go-http-metrics", "google.golang.org/grpc/grpclog",
	"github.com/grpc-ecosystem/go-grpc-prometheus",
	"github.com/klauspost/compress", "github.com/mostynb/zstdpool-syncpool", "github.com/valyala/gozstd",
}

func isStubbedPkg(p string) bool {
	for _, s := range stubbedPkgs {
		if p == s || (strings.HasSuffix(s, "/") && strings.HasPrefix(p, s)) || strings.HasPrefix(p, s+"/") {
			return true
		}
	}
	return false
}

const vsymPath = RepoPrefix + "/zzverif/vsym."
const vmodelPkg = RepoPrefix + "/zzverif/vmodel"

// packages (besides /repo's own) whose init functions are executed.
var initAllow = map[string]bool{
	"io": true, "context": true, "container/list": true, "path": true, "bytes": true,
	"strings": true, "bufio": true, "strconv": true, "sort": true, "unicode/utf8": true,
	"encoding/hex": true, "encoding/binary": true, "golang.org/x/sync/semaphore": true,
	"golang.org/x/sync/errgroup": true, "google.golang.org/grpc/codes": true, "io/fs": true,
	"internal/oserror": true, "path/filepath": true, "encoding/base64": true, "math/bits": true,
	"github.com/abbot/go-http-auth": true, "net/textproto": true,
	"slices": true, "maps": true, "cmp": true, "iter": true, "net/url": true,
}

func initAllowed(p *ssa.Package) bool {
	pp := p.Pkg.Path()
	if strings.HasPrefix(pp, RepoPrefix) {
		return !strings.Contains(pp, "/genproto/")
	}
	return initAllow[pp]
}

// modelIndex finds Go-written models in package zzverif/vmodel by mangled name.
type modelIndex struct {
	pkg *ssa.Package
}

func NewModelIndex(prog *ssa.Program) *modelIndex {
	for _, p := range prog.AllPackages() {
		if p.Pkg.Path() == vmodelPkg {
			return &modelIndex{p}
		}
	}
	return &modelIndex{}
}

func capFirst(s string) string {
	if s == "" {
		return s
	}
	return strings.ToUpper(s[:1]) + s[1:]
}

// mangle maps "os.OpenFile" -> "Os_OpenFile", "(*os.File).Write" -> "Os_File_Write".
func mangle(fn *ssa.Function) string {
	if fn.Signature.Recv() != nil {
		rt := fn.Signature.Recv().Type()
		if p, ok := rt.(*types.Pointer); ok {
			rt = p.Elem()
		}
		n, ok := rt.(*types.Named)
		if !ok || n.Obj().Pkg() == nil {
			return ""
		}
		return capFirst(pkgBase(n.Obj().Pkg().Path())) + "_" + n.Obj().Name() + "_" + fn.Name()
	}
	if fn.Pkg == nil || fn.Parent() != nil {
		return ""
	}
	return capFirst(pkgBase(fn.Pkg.Pkg.Path())) + "_" + fn.Name()
}

// pkgBase: last path element as an identifier ("zstdpool-syncpool" ->
// "zstdpool_syncpool", "yaml.v3" -> "yaml_v3"); a bare major-version element
// ("github.com/urfave/cli/v2") is skipped.
func pkgBase(p string) string {
	b := path.Base(p)
	if len(b) >= 2 && b[0] == 'v' && strings.Trim(b[1:], "0123456789") == "" {
		b = path.Base(path.Dir(p))
	}
	b = strings.ReplaceAll(b, "-", "_")
	return strings.ReplaceAll(b, ".", "_")
}

func (m *modelIndex) lookup(fn *ssa.Function) *ssa.Function {
	if m == nil || m.pkg == nil {
		return nil
	}
	if fn.Pkg != nil && fn.Pkg == m.pkg {
		return nil
	}
	name := mangle(fn)
	if name == "" {
		return nil
	}
	if f := m.pkg.Func(name); f != nil {
		return f
	}
	return nil
}

func (w *worker) lookupIntercept(i *interpreter, fn *ssa.Function) externalFn {
	if w.inoIntercept[fn] {
		return nil
	}
	if e, ok := w.icache[fn]; ok {
		return e
	}
	e := w.findIntercept(fn)
	if e == nil {
		w.inoIntercept[fn] = true
		return nil
	}
	w.icache[fn] = e
	return e
}

func (w *worker) findIntercept(fn *ssa.Function) externalFn {
	name := fn.String()
	// package initialisers
	if fn.Name() == "init" && fn.Pkg != nil && fn.Signature.Recv() == nil && fn.Parent() == nil && fn.Synthetic != "" {
		if !initAllowed(fn.Pkg) {
			return func(fr *frame, a []value) value { return nil }
		}
		return nil
	}
	if strings.HasPrefix(name, vsymPath) {
		if e := vsymFns[strings.TrimPrefix(name, vsymPath)]; e != nil {
			return e
		}
		panic(engineError{"unknown intrinsic " + name})
	}
	if m := w.models.lookup(fn); m != nil {
		w.stubs["model:"+name] = true
		return func(fr *frame, a []value) value { return call(fr.i, fr.caller, fr.callpos, m, a) }
	}
	if e := natives[name]; e != nil {
		w.stubs["native:"+name] = true
		return e
	}
	if fn.Pkg != nil && isStubbedPkg(fn.Pkg.Pkg.Path()) {
		w.stubs["noop:"+fn.Pkg.Pkg.Path()] = true
		return func(fr *frame, a []value) value { return zeroResults(fn.Signature) }
	}
	if fn.Signature.Recv() != nil {
		if n, ok := derefNamed(fn.Signature.Recv().Type()); ok && n.Obj().Pkg() != nil && isStubbedPkg(n.Obj().Pkg().Path()) {
			w.stubs["noop:"+n.Obj().Pkg().Path()] = true
			return func(fr *frame, a []value) value { return zeroResults(fn.Signature) }
		}
	}
	return nil
}

func derefNamed(t types.Type) (*types.Named, bool) {
	if p, ok := t.(*types.Pointer); ok {
		t = p.Elem()
	}
	n, ok := t.(*types.Named)
	return n, ok
}

// ---- globals and package initialisation

func (i *interpreter) ensureInit(p *ssa.Package) {
	if p == nil || i.inited[p] {
		return
	}
	i.inited[p] = true
	if !initAllowed(p) {
		return
	}
	if f := p.Func("init"); f != nil {
		call(i, nil, token.NoPos, f, nil)
	}
}

func (i *interpreter) global(g *ssa.Global) *value {
	if r, ok := i.globals[g]; ok {
		return r
	}
	cell := zero(mustDeref(g.Type()))
	p := &cell
	i.globals[g] = p
	if g.Pkg != nil && !i.inited[g.Pkg] && !strings.HasPrefix(g.Name(), "init$") {
		if initAllowed(g.Pkg) {
			i.ensureInit(g.Pkg)
		} else {
			i.lazyGlobal(g, p)
		}
	}
	return p
}

// lazyGlobal initialises one global of a package whose init is not run, when
// its initialiser is a simple expression (errors.New("..."), constants).
func (i *interpreter) lazyGlobal(g *ssa.Global, p *value) {
	init := g.Pkg.Func("init")
	if init == nil {
		return
	}
	for _, b := range init.Blocks {
		for _, ins := range b.Instrs {
			st, ok := ins.(*ssa.Store)
			if !ok || st.Addr != ssa.Value(g) {
				continue
			}
			v, ok := i.evalSimple(st.Val, 0)
			if !ok {
				panic(engineError{"global " + g.String() + " of a package whose init is not executed has a non-trivial initialiser"})
			}
			*p = v
			return
		}
	}
	// no store: zero value is right (or it is set by a func init())
	i.w.stubs["zero-global:"+g.String()] = true
}

func (i *interpreter) evalSimple(v ssa.Value, depth int) (value, bool) {
	if depth > 6 {
		return nil, false
	}
	switch v := v.(type) {
	case *ssa.Const:
		return constValue(v), true
	case *ssa.Function:
		return v, true
	case *ssa.Global:
		return i.global(v), true
	case *ssa.MakeInterface:
		x, ok := i.evalSimple(v.X, depth+1)
		if !ok {
			return nil, false
		}
		return iface{t: v.X.Type(), v: x}, true
	case *ssa.Alloc:
		// &T{} with no field initialisers: the only use is the store into the global
		if refs := v.Referrers(); v.Heap && refs != nil && len(*refs) == 1 {
			cell := zero(mustDeref(v.Type()))
			return &cell, true
		}
		return nil, false
	case *ssa.ChangeType:
		return i.evalSimple(v.X, depth+1)
	case *ssa.Convert:
		x, ok := i.evalSimple(v.X, depth+1)
		if !ok {
			return nil, false
		}
		return conv(v.Type(), v.X.Type(), x), true
	case *ssa.Call:
		callee := v.Call.StaticCallee()
		if callee == nil {
			return nil, false
		}
		switch callee.String() {
		case "errors.New", "fmt.Errorf", "internal/oserror.New":
		default:
			return nil, false
		}
		var args []value
		for _, a := range v.Call.Args {
			x, ok := i.evalSimple(a, depth+1)
			if !ok {
				return nil, false
			}
			args = append(args, x)
		}
		return call(i, nil, token.NoPos, callee, args), true
	}
	return nil, false
}

// mkError builds an interpreter error value (*errors.errorString).
func (i *interpreter) mkError(text string) value {
	ep := i.prog.ImportedPackage("errors")
	if ep == nil {
		panic(engineError{"package errors not loaded"})
	}
	return call(i, nil, token.NoPos, ep.Func("New"), []value{text})
}

// ---- intrinsics

func str(v value) string {
	s, ok := v.(string)
	if !ok {
		panic(engineError{fmt.Sprintf("intrinsic needs a constant string, got %T", v)})
	}
	return s
}

var vsymFns = map[string]externalFn{}

func init() {
	sym := func(k types.BasicKind) externalFn {
		return func(fr *frame, a []value) value { return fr.i.pm.fresh(str(a[0]), k) }
	}
	addAll(vsymFns, map[string]externalFn{
		"Int64":  sym(types.Int64),
		"Int":    sym(types.Int),
		"Int32":  sym(types.Int32),
		"Uint64": sym(types.Uint64),
		"Uint32": sym(types.Uint32),
		"Uint8":  sym(types.Uint8),
		"Bool":   sym(types.Bool),
		"Matches": func(fr *frame, a []value) value {
			if isSymStr(a[0]) {
				return boolTerm(regexMatchTerm(str(a[1]), strTerm(a[0])))
			}
			return regexp.MustCompile(str(a[1])).MatchString(str(a[0]))
		},
		"Decimal": func(fr *frame, a []value) value {
			if sv, ok := a[0].(symv); ok {
				t := toInt(sv).(symv)
				return (&sstr{[]spart{{sym: &t}}}).norm()
			}
			return fmt.Sprint(asInt64(a[0]))
		},
		"Contains": func(fr *frame, a []value) value {
			if isSymStr(a[0]) || isSymStr(a[1]) {
				return boolTerm("(str.contains " + strTerm(a[0]) + " " + strTerm(a[1]) + ")")
			}
			return strings.Contains(str(a[0]), str(a[1]))
		},
		"HasSuffix": func(fr *frame, a []value) value {
			if isSymStr(a[0]) || isSymStr(a[1]) {
				return boolTerm("(str.suffixof " + strTerm(a[1]) + " " + strTerm(a[0]) + ")")
			}
			return strings.HasSuffix(str(a[0]), str(a[1]))
		},
		"HasPrefix": func(fr *frame, a []value) value {
			if isSymStr(a[0]) || isSymStr(a[1]) {
				return boolTerm("(str.prefixof " + strTerm(a[1]) + " " + strTerm(a[0]) + ")")
			}
			return strings.HasPrefix(str(a[0]), str(a[1]))
		},
		"Str":    func(fr *frame, a []value) value { return fr.i.pm.freshStr(str(a[0])) },
		"Choose": func(fr *frame, a []value) value {
			return fr.i.pm.choose(int(asInt64(a[1])), "Choose:"+str(a[0]))
		},
		"Assume": func(fr *frame, a []value) value { fr.i.pm.assume(a[0]); return nil },
		"Assert": func(fr *frame, a []value) value { fr.i.pm.assert(a[0], str(a[1])); return nil },
		"Reach": func(fr *frame, a []value) value {
			if fr.i.pm.concrete == nil {
				fr.i.w.reached[str(a[0])]++
			}
			return nil
		},
		"Unwind": func(fr *frame, a []value) value { fr.i.pm.unwind = int(asInt64(a[0])); return nil },
		"Fact": func(fr *frame, a []value) value {
			fr.i.pm.facts[str(a[0])] = summarise(a[1])
			return nil
		},
		"Yield":   func(fr *frame, a []value) value { fr.i.yieldPoint("yield"); return nil },
		"Quiesce": func(fr *frame, a []value) value { return fr.i.quiesce() },
		"Symbolic": func(fr *frame, a []value) value {
			return fr.i.pm.concrete == nil
		},
		"IsSym": func(fr *frame, a []value) value { return containsSym(a[0].(iface).v) },
		"Bytes": func(fr *frame, a []value) value {
			// n symbolic bytes named name[i]
			n := int(concInt(a[1], "Bytes length"))
			s := make([]value, n)
			for k := range s {
				s[k] = fr.i.pm.fresh(fmt.Sprintf("%s[%d]", str(a[0]), k), types.Uint8)
			}
			return s
		},
		"Stop": func(fr *frame, a []value) value { panic(pathAbort{"stop " + str(a[0])}) },
		"Ite64": func(fr *frame, a []value) value {
			switch c := a[0].(type) {
			case bool:
				if c {
					return a[1]
				}
				return a[2]
			case symv:
				return symv{"(ite " + c.t + " " + term(a[1], types.Int64) + " " + term(a[2], types.Int64) + ")", types.Int64}
			}
			panic(engineError{"Ite64"})
		},
		"And": func(fr *frame, a []value) value { return andVals([]value{a[0], a[1]}) },
		"Or": func(fr *frame, a []value) value {
			return notVal(andVals([]value{notVal(a[0]), notVal(a[1])}))
		},
		"Implies": func(fr *frame, a []value) value {
			return notVal(andVals([]value{a[0], notVal(a[1])}))
		},
		"Not": func(fr *frame, a []value) value { return notVal(a[0]) },
		"IsConcrete": func(fr *frame, a []value) value { return fr.i.pm.note(!containsSym(a[0].(iface).v)) },
	})
}

func addAll(dst, src map[string]externalFn) {
	for k, v := range src {
		dst[k] = v
	}
}

// ---- natives

func toHost(v value, t reflect.Type) (reflect.Value, bool) {
	switch t.Kind() {
	case reflect.String:
		s, ok := v.(string)
		return reflect.ValueOf(s), ok
	case reflect.Bool:
		b, ok := v.(bool)
		return reflect.ValueOf(b), ok
	case reflect.Int, reflect.Int8, reflect.Int16, reflect.Int32, reflect.Int64:
		if _, ok := v.(symv); ok {
			return reflect.Value{}, false
		}
		r := reflect.New(t).Elem()
		r.SetInt(asInt64(v))
		return r, true
	case reflect.Uint, reflect.Uint8, reflect.Uint16, reflect.Uint32, reflect.Uint64:
		if _, ok := v.(symv); ok {
			return reflect.Value{}, false
		}
		r := reflect.New(t).Elem()
		r.SetUint(uint64(asInt64(v)))
		return r, true
	case reflect.Slice:
		xs, ok := v.([]value)
		if !ok {
			return reflect.Value{}, false
		}
		r := reflect.MakeSlice(t, len(xs), len(xs))
		for k, x := range xs {
			e, ok := toHost(x, t.Elem())
			if !ok {
				return reflect.Value{}, false
			}
			r.Index(k).Set(e)
		}
		return r, true
	}
	return reflect.Value{}, false
}

func (i *interpreter) fromHost(r reflect.Value) value {
	switch r.Kind() {
	case reflect.String:
		return r.String()
	case reflect.Bool:
		return r.Bool()
	case reflect.Int:
		return int(r.Int())
	case reflect.Int8:
		return int8(r.Int())
	case reflect.Int16:
		return int16(r.Int())
	case reflect.Int32:
		return int32(r.Int())
	case reflect.Int64:
		return r.Int()
	case reflect.Uint:
		return uint(r.Uint())
	case reflect.Uint8:
		return uint8(r.Uint())
	case reflect.Uint16:
		return uint16(r.Uint())
	case reflect.Uint32:
		return uint32(r.Uint())
	case reflect.Uint64:
		return r.Uint()
	case reflect.Slice:
		if r.IsNil() {
			return []value(nil)
		}
		out := make([]value, r.Len())
		for k := range out {
			out[k] = i.fromHost(r.Index(k))
		}
		return out
	case reflect.Interface:
		if r.IsNil() {
			return iface{}
		}
		if e, ok := r.Interface().(error); ok {
			return i.mkError(e.Error())
		}
	}
	panic(engineError{"fromHost: " + r.Type().String()})
}

// native wraps a host function operating on concrete basic values.
func native(f interface{}) externalFn {
	fv := reflect.ValueOf(f)
	ft := fv.Type()
	return func(fr *frame, a []value) value {
		in := make([]reflect.Value, len(a))
		for k := range a {
			var pt reflect.Type
			if ft.IsVariadic() && k >= ft.NumIn()-1 {
				pt = ft.In(ft.NumIn() - 1)
				if k == ft.NumIn()-1 && len(a) == ft.NumIn() {
					// variadic slice passed as one arg
					h, ok := toHost(a[k], pt)
					if !ok {
						panic(engineError{fmt.Sprintf("native %v: symbolic or unsupported argument %d (%T)", ft, k, a[k])})
					}
					in[k] = h
					out := fv.CallSlice(in)
					return fr.i.hostResults(out)
				}
			} else {
				pt = ft.In(k)
			}
			h, ok := toHost(a[k], pt)
			if !ok {
				panic(engineError{fmt.Sprintf("native %v: symbolic or unsupported argument %d (%T)", ft, k, a[k])})
			}
			in[k] = h
		}
		return fr.i.hostResults(fv.Call(in))
	}
}

func (i *interpreter) hostResults(out []reflect.Value) value {
	switch len(out) {
	case 0:
		return nil
	case 1:
		return i.fromHost(out[0])
	}
	t := make(tuple, len(out))
	for k := range out {
		t[k] = i.fromHost(out[k])
	}
	return t
}

func pathJoinNative(ss []string) string { return path.Join(ss...) }

func regexOf(v value) *regexp.Regexp {
	p := v.(*value)
	if p == nil {
		panic(runtimePanic{"nil *regexp.Regexp"})
	}
	return (*p).(*hostObj).v.(*regexp.Regexp)
}

func strSlice(ss []string) value {
	if ss == nil {
		return []value(nil)
	}
	out := make([]value, len(ss))
	for k, s := range ss {
		out[k] = s
	}
	return out
}

func ptrTo(v value) *value { return &v }

var natives = map[string]externalFn{}

func init() {
	atomicAdd := func(t types.Type) externalFn {
		return func(fr *frame, a []value) value {
			p := a[0].(*value)
			fr.i.raceAcquire(p)
			*p = binop(token.ADD, t, *p, a[1])
			fr.i.raceRelease(p)
			return *p
		}
	}
	atomicLoad := func(fr *frame, a []value) value { fr.i.raceAcquire(a[0].(*value)); return *(a[0].(*value)) }
	atomicStore := func(fr *frame, a []value) value {
		fr.i.raceAcquire(a[0].(*value))
		*(a[0].(*value)) = a[1]
		fr.i.raceRelease(a[0].(*value))
		return nil
	}
	atomicSwap := func(fr *frame, a []value) value {
		p := a[0].(*value)
		fr.i.raceAcquire(p)
		old := *p
		*p = a[1]
		fr.i.raceRelease(p)
		return old
	}
	atomicCAS := func(t types.Type) externalFn {
		return func(fr *frame, a []value) value {
			p := a[0].(*value)
			fr.i.raceAcquire(p)
			eq := fr.i.eqOp(fr, token.EQL, t, *p, a[1])
			if fr.i.decide(fr, eq) {
				*p = a[2]
				fr.i.raceRelease(p)
				return true
			}
			return false
		}
	}
	addAll(natives, map[string]externalFn{
		"sync/atomic.AddInt64":    atomicAdd(types.Typ[types.Int64]),
		"sync/atomic.AddInt32":    atomicAdd(types.Typ[types.Int32]),
		"sync/atomic.AddUint64":   atomicAdd(types.Typ[types.Uint64]),
		"sync/atomic.AddUint32":   atomicAdd(types.Typ[types.Uint32]),
		"sync/atomic.LoadInt64":   atomicLoad,
		"sync/atomic.LoadInt32":   atomicLoad,
		"sync/atomic.LoadUint64":  atomicLoad,
		"sync/atomic.LoadUint32":  atomicLoad,
		"sync/atomic.StoreInt64":  atomicStore,
		"sync/atomic.StoreInt32":  atomicStore,
		"sync/atomic.StoreUint64": atomicStore,
		"sync/atomic.StoreUint32": atomicStore,
		"sync/atomic.SwapInt32":   atomicSwap,
		"sync/atomic.SwapInt64":   atomicSwap,
		"sync/atomic.CompareAndSwapInt32":  atomicCAS(types.Typ[types.Int32]),
		"sync/atomic.CompareAndSwapInt64":  atomicCAS(types.Typ[types.Int64]),
		"sync/atomic.CompareAndSwapUint32": atomicCAS(types.Typ[types.Uint32]),
		"sync/atomic.CompareAndSwapUint64": atomicCAS(types.Typ[types.Uint64]),

		"(*sync.Mutex).Lock":      func(fr *frame, a []value) value { fr.i.lock(fr, a[0].(*value)); return nil },
		"(*sync.Mutex).Unlock":    func(fr *frame, a []value) value { fr.i.unlock(fr, a[0].(*value)); return nil },
		"(*sync.RWMutex).Lock":    func(fr *frame, a []value) value { fr.i.lock(fr, a[0].(*value)); return nil },
		"(*sync.RWMutex).Unlock":  func(fr *frame, a []value) value { fr.i.unlock(fr, a[0].(*value)); return nil },
		"(*sync.RWMutex).RLock":   func(fr *frame, a []value) value { fr.i.rlock(fr, a[0].(*value)); return nil },
		"(*sync.RWMutex).RUnlock": func(fr *frame, a []value) value { fr.i.runlock(fr, a[0].(*value)); return nil },
		"(*sync.WaitGroup).Add": func(fr *frame, a []value) value {
			c := fr.i.wg(a[0].(*value))
			*c += asInt64(a[1])
			if *c < 0 {
				panic(runtimePanic{"sync: negative WaitGroup counter"})
			}
			return nil
		},
		"(*sync.WaitGroup).Done": func(fr *frame, a []value) value {
			c := fr.i.wg(a[0].(*value))
			fr.i.raceRelease(c)
			*c--
			if *c < 0 {
				panic(runtimePanic{"sync: negative WaitGroup counter"})
			}
			return nil
		},
		"(*sync.WaitGroup).Wait": func(fr *frame, a []value) value {
			c := fr.i.wg(a[0].(*value))
			fr.i.yieldPoint("wg.Wait")
			fr.i.block(func() bool { return *c == 0 }, "WaitGroup.Wait")
			fr.i.raceAcquire(c)
			return nil
		},
		"(*sync.Once).Do": func(fr *frame, a []value) value {
			p := a[0].(*value)
			d := fr.i.onces[p]
			if d == nil {
				d = new(bool)
				fr.i.onces[p] = d
			}
			if !*d {
				*d = true
				call(fr.i, fr, fr.callpos, a[1], nil)
				fr.i.raceRelease(d)
			} else {
				fr.i.raceAcquire(d)
			}
			return nil
		},
		"(*sync.Pool).Get": func(fr *frame, a []value) value {
			p := a[0].(*value)
			st := (*p).(structure)
			// field "New" is the last field of sync.Pool
			nf := st[len(st)-1]
			if f, ok := nf.(*ssa.Function); ok && f == nil {
				return iface{}
			}
			return call(fr.i, fr, fr.callpos, nf, nil)
		},
		"(*sync.Pool).Put": func(fr *frame, a []value) value { return nil },

		"fmt.Sprintf": func(fr *frame, a []value) value { return fr.i.sprintf(str(a[0]), a[1].([]value)) },
		"fmt.Sprint": func(fr *frame, a []value) value {
			var out value = ""
			for k, x := range a[0].([]value) {
				if k > 0 {
					out = concatStr(out, " ")
				}
				out = concatStr(out, fr.i.formatArg("%v", 'v', x))
			}
			return out
		},
		"fmt.Sprintln": func(fr *frame, a []value) value {
			var out value = ""
			for k, x := range a[0].([]value) {
				if k > 0 {
					out = concatStr(out, " ")
				}
				out = concatStr(out, fr.i.formatArg("%v", 'v', x))
			}
			return concatStr(out, "\n")
		},
		"fmt.Println": func(fr *frame, a []value) value { return tuple{0, iface{}} },
		"fmt.Printf":  func(fr *frame, a []value) value { return tuple{0, iface{}} },
		"fmt.Fprintf": func(fr *frame, a []value) value { return tuple{0, iface{}} },

		"strings.HasPrefix": func(fr *frame, a []value) value { return hasPrefixStr(a[0], str(a[1])) },
		"strings.HasSuffix": func(fr *frame, a []value) value { return hasSuffixStr(a[0], str(a[1])) },
		"strings.Index":      native(strings.Index),
		"strings.IndexByte":  native(strings.IndexByte),
		"strings.IndexRune":  native(strings.IndexRune),
		"strings.IndexAny":   native(strings.IndexAny),
		"strings.LastIndex":  native(strings.LastIndex),
		"strings.LastIndexByte": native(strings.LastIndexByte),
		"strings.Contains":   native(strings.Contains),
		"strings.ContainsRune": native(strings.ContainsRune),
		"strings.ContainsAny": native(strings.ContainsAny),
		"strings.Count":      native(strings.Count),
		"strings.Split":      native(strings.Split),
		"strings.SplitN":     native(strings.SplitN),
		"strings.Join":       native(strings.Join),
		"strings.TrimSuffix": native(strings.TrimSuffix),
		"strings.TrimPrefix": native(strings.TrimPrefix),
		"strings.TrimSpace":  native(strings.TrimSpace),
		"strings.Trim":       native(strings.Trim),
		"strings.TrimLeft":   native(strings.TrimLeft),
		"strings.TrimRight":  native(strings.TrimRight),
		"strings.ToLower":    native(strings.ToLower),
		"strings.ToUpper":    native(strings.ToUpper),
		"strings.EqualFold":  native(strings.EqualFold),
		"strings.Replace":    native(strings.Replace),
		"strings.ReplaceAll": native(strings.ReplaceAll),
		"strings.Repeat":     native(strings.Repeat),
		"strings.Fields":     native(strings.Fields),
		"strings.Cut": func(fr *frame, a []value) value {
			b, c, ok := strings.Cut(str(a[0]), str(a[1]))
			return tuple{b, c, ok}
		},
		"strconv.Itoa":      native(strconv.Itoa),
		"strconv.Atoi":      native(strconv.Atoi),
		"strconv.ParseInt":  native(strconv.ParseInt),
		"strconv.ParseUint": native(strconv.ParseUint),
		"strconv.ParseBool": native(strconv.ParseBool),
		"strconv.FormatInt": native(strconv.FormatInt),
		"strconv.Quote":     native(strconv.Quote),
		"unicode.IsSpace":   native(unicode.IsSpace),
		"unicode.IsUpper":   native(unicode.IsUpper),
		"unicode.IsLower":   native(unicode.IsLower),
		"unicode.IsDigit":   native(unicode.IsDigit),
		"unicode.IsLetter":  native(unicode.IsLetter),
		"unicode.ToLower":   native(unicode.ToLower),
		"unicode.ToUpper":   native(unicode.ToUpper),
		"unicode/utf8.ValidString":    native(utf8.ValidString),
		"unicode/utf8.RuneCountInString": native(utf8.RuneCountInString),
		"encoding/hex.EncodeToString": native(hex.EncodeToString),
		"encoding/hex.DecodeString":   native(hex.DecodeString),
		"path.Join":          func(fr *frame, a []value) value { return joinPath(a[0].([]value)) },
		"path/filepath.Join": func(fr *frame, a []value) value { return joinPath(a[0].([]value)) },
		"path.Base":          native(path.Base),
		"path.Dir":           native(path.Dir),
		"path.Clean":         native(path.Clean),
		"path.IsAbs":         native(path.IsAbs),
		"path/filepath.Base": native(path.Base),
		"path/filepath.Dir":  native(path.Dir),
		"path/filepath.Clean": native(path.Clean),
		"path/filepath.IsAbs": native(path.IsAbs),

		"internal/bytealg.IndexByteString": native(strings.IndexByte),
		"internal/bytealg.CountString":     func(fr *frame, a []value) value { return strings.Count(str(a[0]), string([]byte{a[1].(uint8)})) },
		"internal/bytealg.IndexString":     native(strings.Index),

		"regexp.MustCompile": func(fr *frame, a []value) value {
			return ptrTo(&hostObj{regexp.MustCompile(str(a[0]))})
		},
		"regexp.Compile": func(fr *frame, a []value) value {
			re, err := regexp.Compile(str(a[0]))
			if err != nil {
				return tuple{(*value)(nil), fr.i.mkError(err.Error())}
			}
			return tuple{ptrTo(&hostObj{re}), iface{}}
		},
		"(*regexp.Regexp).MatchString": func(fr *frame, a []value) value { return regexOf(a[0]).MatchString(str(a[1])) },
		"(*regexp.Regexp).FindStringSubmatch": func(fr *frame, a []value) value {
			return strSlice(regexOf(a[0]).FindStringSubmatch(str(a[1])))
		},
		"(*regexp.Regexp).FindString": func(fr *frame, a []value) value { return regexOf(a[0]).FindString(str(a[1])) },
		"(*regexp.Regexp).String":     func(fr *frame, a []value) value { return regexOf(a[0]).String() },
		"(*regexp.Regexp).ReplaceAllString": func(fr *frame, a []value) value {
			return regexOf(a[0]).ReplaceAllString(str(a[1]), str(a[2]))
		},

		"runtime.Gosched":     func(fr *frame, a []value) value { fr.i.yieldPoint("gosched"); return nil },
		"runtime.GOMAXPROCS":  func(fr *frame, a []value) value { return 4 },
		"runtime.NumCPU":      func(fr *frame, a []value) value { return 4 },
		"runtime.NumGoroutine": func(fr *frame, a []value) value {
			n := 0
			for _, t := range fr.i.threads {
				if !t.done {
					n++
				}
			}
			return n
		},
		"runtime.KeepAlive":   func(fr *frame, a []value) value { return nil },
		"runtime.SetFinalizer": func(fr *frame, a []value) value { return nil },
		"time.Sleep": func(fr *frame, a []value) value {
			// sleeping lets every other runnable goroutine make progress
			fr.i.sleepYield()
			return nil
		},
		"os.Exit":             func(fr *frame, a []value) value { panic(targetPanic{iface{types.Typ[types.String], "os.Exit"}, fr.pos(token.NoPos)}) },

		"errors.As": nativeErrorsAs,
	})
}

func (i *interpreter) wg(p *value) *int64 {
	c := i.wgs[p]
	if c == nil {
		c = new(int64)
		i.wgs[p] = c
	}
	return c
}

// errors.As(err, target): walks the Unwrap chain; target is a *T.
func nativeErrorsAs(fr *frame, a []value) value {
	err := a[0].(iface)
	tgt := a[1].(iface)
	if tgt.t == nil {
		panic(runtimePanic{"errors: target cannot be nil"})
	}
	pt, ok := tgt.t.Underlying().(*types.Pointer)
	if !ok {
		panic(runtimePanic{"errors: target must be a non-nil pointer"})
	}
	want := pt.Elem()
	p := tgt.v.(*value)
	for depth := 0; err.t != nil && depth < 20; depth++ {
		if _, isIface := want.Underlying().(*types.Interface); isIface {
			if m, _ := types.MissingMethod(err.t, want.Underlying().(*types.Interface), true); m == nil {
				*p = err
				return true
			}
		} else if types.Identical(err.t, want) {
			*p = err.v
			return true
		}
		// As method ignored; Unwrap
		um := fr.i.findMethod(err.t, "Unwrap")
		if um == nil {
			return false
		}
		fn := um.(*ssa.Function)
		if fn.Signature.Results().Len() != 1 {
			return false
		}
		if _, isSlice := fn.Signature.Results().At(0).Type().Underlying().(*types.Slice); isSlice {
			return false
		}
		r := call(fr.i, fr, fr.callpos, fn, []value{err.v})
		err = r.(iface)
	}
	return false
}
