// Copyright 2013 The Go Authors. All rights reserved.
// Use of this source code is governed by a BSD-style
// license that can be found in the LICENSE file.

// Package sx is a symbolic executor for go/ssa. It started as a copy of
// golang.org/x/tools/go/ssa/interp (v0.29.0) and was modified: scalar values
// may be SMT terms, branches on symbolic conditions are decided by an SMT
// solver, paths are explored by re-execution with decision prefixes,
// goroutines are serialised by a baton scheduler whose choices are path
// decisions, and run-time errors of the target are reported as obligations.
package sx

import (
	"fmt"
	"go/token"
	"go/types"
	"os"
	"slices"
	"strings"
	"sync"

	"golang.org/x/tools/go/ssa"
)

var branchLog = os.Getenv("GOSMX_BRANCHLOG") != ""

type continuation int

const (
	kNext continuation = iota
	kReturn
	kJump
)

// control-flow panics of the engine itself
type engineError struct{ msg string }  // unsupported construct etc: run is inconclusive
type runtimePanic struct{ msg string } // Go run-time error in the target (nil deref, index, ...)
type pathAbort struct{ why string }    // path ends quietly
type threadKilled struct{}             // a parked thread is unwound at path end
type unwindExceeded struct{ where string }
type hangDetected struct{ where string }

func (e engineError) Error() string  { return "engine: " + e.msg }
func (e runtimePanic) Error() string { return "runtime error: " + e.msg }

// State shared between all interpreted goroutines of one path.
type interpreter struct {
	prog    *ssa.Program
	globals map[*ssa.Global]*value
	sizes   types.Sizes
	pm      *pathMgr
	w       *worker // per-worker, cross-path state (coverage, redirect cache)
	inited  map[*ssa.Package]bool

	// threads
	threads   []*thread
	cur       *thread
	killed    chan struct{}
	switches  int // preemptive switches used
	sleeps    int
	pendPanic interface{}

	// side tables of engine-modelled objects
	mutexes map[*value]*mutexState
	wgs     map[*value]*int64
	onces   map[*value]*bool
	nextID  int

	steps      int64
	writeClock int64 // incremented on every heap write / model call

	race *raceState // happens-before bookkeeping (cfg.Races)

	host map[string]interface{} // scratch for native models
	hostWG sync.WaitGroup
	traceback []string
}

type deferred struct {
	fn    value
	args  []value
	instr *ssa.Defer
	tail  *deferred
}

type loopSnap struct {
	clock int64
	pcLen int
	phis  []value
}

type frame struct {
	i                *interpreter
	caller           *frame
	fn               *ssa.Function
	block, prevBlock *ssa.BasicBlock
	env              map[ssa.Value]value
	locals           []value
	defers           *deferred
	result           value
	panicking        bool
	panic            interface{}
	phitemps         []value
	symVisits        map[*ssa.BasicBlock]int
	snaps            map[*ssa.BasicBlock]*loopSnap
	callpos          token.Pos
}

func (fr *frame) get(key ssa.Value) value {
	switch key := key.(type) {
	case nil:
		return nil
	case *ssa.Function, *ssa.Builtin:
		return key
	case *ssa.Const:
		return constValue(key)
	case *ssa.Global:
		return fr.i.global(key)
	}
	if r, ok := fr.env[key]; ok {
		return r
	}
	panic(engineError{fmt.Sprintf("get: no value for %T: %v", key, key.Name())})
}

func isControl(r interface{}) bool {
	switch r.(type) {
	case engineError, pathAbort, threadKilled, unwindExceeded, hangDetected, deadlock, solverUnknown:
		return true
	}
	return false
}

func (fr *frame) runDefer(d *deferred) {
	var ok bool
	defer func() {
		if !ok {
			r := recover()
			if isControl(r) {
				panic(r)
			}
			fr.panicking = true
			fr.panic = r
		}
	}()
	call(fr.i, fr, d.instr.Pos(), d.fn, d.args)
	ok = true
}

func (fr *frame) runDefers() {
	for d := fr.defers; d != nil; d = d.tail {
		fr.runDefer(d)
	}
	fr.defers = nil
	if fr.panicking {
		panic(fr.panic)
	}
}

func lookupMethod(i *interpreter, typ types.Type, meth *types.Func) *ssa.Function {
	return i.prog.LookupMethod(typ, meth.Pkg(), meth.Name())
}

func (fr *frame) pos(p token.Pos) string {
	if p == token.NoPos {
		p = fr.callpos
	}
	if p == token.NoPos {
		return fr.fn.String()
	}
	ps := fr.i.prog.Fset.Position(p)
	return fmt.Sprintf("%s:%d", shortFile(ps.Filename), ps.Line)
}

// RepoRoot is the directory of the tree under analysis (/repo, or a scratch
// copy given by VERIF_REPO): positions in labels are relative to it, so that a
// label reads the same wherever the tree lives.
var RepoRoot = "/repo"

func shortFile(f string) string {
	f = strings.TrimPrefix(f, strings.TrimSuffix(RepoRoot, "/")+"/")
	if i := strings.Index(f, "/src/"); i >= 0 && strings.Contains(f, "golang.org/toolchain") {
		f = "GOROOT" + f[i+4:]
	}
	return f
}

func (fr *frame) nilPanic(instr ssa.Instruction) {
	panic(runtimePanic{"invalid memory address or nil pointer dereference at " + fr.pos(instr.Pos())})
}

// visitInstr interprets a single ssa.Instruction.
func visitInstr(fr *frame, instr ssa.Instruction) continuation {
	i := fr.i
	i.steps++
	if i.steps > i.pm.cfg.StepLimit {
		panic(unwindExceeded{"step limit in " + fr.fn.String()})
	}
	switch instr := instr.(type) {
	case *ssa.DebugRef:
		// no-op

	case *ssa.UnOp:
		x := fr.get(instr.X)
		switch instr.Op {
		case token.ARROW:
			fr.env[instr] = i.chanRecv(fr, instr, x)
		case token.MUL:
			fr.env[instr] = i.loadPtr(fr, instr, x)
		default:
			fr.env[instr] = unop(instr, x)
		}

	case *ssa.BinOp:
		fr.env[instr] = i.binopChecked(fr, instr, fr.get(instr.X), fr.get(instr.Y))

	case *ssa.Call:
		fn, args := prepareCall(fr, &instr.Call, instr.Pos())
		fr.env[instr] = call(fr.i, fr, instr.Pos(), fn, args)

	case *ssa.ChangeInterface:
		fr.env[instr] = fr.get(instr.X)

	case *ssa.ChangeType:
		fr.env[instr] = fr.get(instr.X)

	case *ssa.Convert:
		fr.env[instr] = conv(instr.Type(), instr.X.Type(), fr.get(instr.X))

	case *ssa.SliceToArrayPointer:
		fr.env[instr] = sliceToArrayPointer(instr.Type(), instr.X.Type(), fr.get(instr.X))

	case *ssa.MakeInterface:
		fr.env[instr] = iface{t: instr.X.Type(), v: fr.get(instr.X)}

	case *ssa.Extract:
		fr.env[instr] = fr.get(instr.Tuple).(tuple)[instr.Index]

	case *ssa.Slice:
		fr.env[instr] = i.sliceOp(fr, instr, fr.get(instr.X), fr.get(instr.Low), fr.get(instr.High), fr.get(instr.Max))

	case *ssa.Return:
		switch len(instr.Results) {
		case 0:
		case 1:
			fr.result = fr.get(instr.Results[0])
		default:
			var res []value
			for _, r := range instr.Results {
				res = append(res, fr.get(r))
			}
			fr.result = tuple(res)
		}
		fr.block = nil
		return kReturn

	case *ssa.RunDefers:
		fr.runDefers()

	case *ssa.Panic:
		panic(targetPanic{fr.get(instr.X), fr.pos(instr.Pos())})

	case *ssa.Send:
		i.chanSend(fr, fr.get(instr.Chan), fr.get(instr.X), instr.Pos())

	case *ssa.Store:
		i.storePtr(fr, instr, fr.get(instr.Addr), fr.get(instr.Val))

	case *ssa.If:
		succ := 1
		c := fr.get(instr.Cond)
		if sc, sym := c.(symv); sym && !(i.pm.concrete == nil && (i.pm.pcSet[sc.t] || i.pm.pcSet["(not "+sc.t+")"])) {
			if fr.symVisits == nil {
				fr.symVisits = map[*ssa.BasicBlock]int{}
			}
			fr.symVisits[fr.block]++
			if fr.symVisits[fr.block] > i.pm.unwind {
				panic(unwindExceeded{fmt.Sprintf("%s (%s)", fr.fn.String(), fr.pos(instr.Cond.Pos()))})
			}
		}
		if i.decide(fr, c) {
			succ = 0
		}
		if branchLog {
			fmt.Fprintf(os.Stderr, "IF %s %s -> %d\n", fr.fn.Name(), fr.pos(instr.Cond.Pos()), succ)
		}
		fr.jump(fr.block.Succs[succ])
		return kJump

	case *ssa.Jump:
		fr.jump(fr.block.Succs[0])
		return kJump

	case *ssa.Defer:
		fn, args := prepareCall(fr, &instr.Call, instr.Pos())
		defers := &fr.defers
		if into := fr.get(instr.DeferStack); into != nil {
			defers = into.(**deferred)
		}
		*defers = &deferred{fn: fn, args: args, instr: instr, tail: *defers}

	case *ssa.Go:
		fn, args := prepareCall(fr, &instr.Call, instr.Pos())
		i.spawn(fr, fn, args, instr.Pos())

	case *ssa.MakeChan:
		fr.env[instr] = i.newChan(int(concInt(fr.get(instr.Size), "chan size")))

	case *ssa.Alloc:
		var addr *value
		if instr.Heap {
			addr = new(value)
			fr.env[instr] = addr
		} else {
			addr = fr.env[instr].(*value)
		}
		if at, ok := mustDeref(instr.Type()).Underlying().(*types.Array); ok && at.Len() > i.pm.cfg.MaxAlloc {
			if k, ok := scalarKind(at.Elem()); ok {
				// huge scalar arrays (make([]byte, 1<<20) is lowered to new([N]byte)[:]) stay sparse
				*addr = &bigArray{obj: &bobj{id: i.newID(), cells: map[int]value{}, elemK: k}, n: int(at.Len()), elem: at.Elem()}
				break
			}
		}
		*addr = zero(mustDeref(instr.Type()))

	case *ssa.MakeSlice:
		fr.env[instr] = i.makeSlice(fr, instr, fr.get(instr.Len), fr.get(instr.Cap))

	case *ssa.MakeMap:
		fr.env[instr] = makeMap(instr.Type().Underlying().(*types.Map).Key(), 0)

	case *ssa.Range:
		if m, ok := fr.get(instr.X).(*omap); ok {
			i.raceObj(fr, m, false, instr.Pos())
		}
		fr.env[instr] = rangeIter(fr.get(instr.X), instr.X.Type())

	case *ssa.Next:
		fr.env[instr] = fr.get(instr.Iter).(iter).next()

	case *ssa.FieldAddr:
		p := fr.get(instr.X).(*value)
		if p == nil {
			fr.nilPanic(instr)
		}
		fr.env[instr] = &(*p).(structure)[instr.Field]

	case *ssa.Field:
		fr.env[instr] = fr.get(instr.X).(structure)[instr.Field]

	case *ssa.IndexAddr:
		fr.env[instr] = i.indexAddr(fr, instr, fr.get(instr.X), fr.get(instr.Index))

	case *ssa.Index:
		fr.env[instr] = i.indexVal(fr, instr, fr.get(instr.X), fr.get(instr.Index))

	case *ssa.Lookup:
		if m, ok := fr.get(instr.X).(*omap); ok {
			i.raceObj(fr, m, false, instr.Pos())
		}
		fr.env[instr] = i.lookupOp(fr, instr, fr.get(instr.X), fr.get(instr.Index))

	case *ssa.MapUpdate:
		m := fr.get(instr.Map)
		i.writeClock++
		switch m := m.(type) {
		case *omap:
			i.raceObj(fr, m, true, instr.Pos())
			m.insert(fr.get(instr.Key), fr.get(instr.Value))
		default:
			panic(engineError{fmt.Sprintf("illegal map type: %T", m)})
		}

	case *ssa.TypeAssert:
		fr.env[instr] = typeAssert(fr, instr, fr.get(instr.X).(iface))

	case *ssa.MakeClosure:
		var bindings []value
		for _, binding := range instr.Bindings {
			bindings = append(bindings, fr.get(binding))
		}
		fr.env[instr] = &closure{instr.Fn.(*ssa.Function), bindings}

	case *ssa.Phi:
		panic(engineError{"unreachable phi"})

	case *ssa.Select:
		fr.env[instr] = i.selectOp(fr, instr)

	default:
		panic(engineError{fmt.Sprintf("unexpected instruction: %T", instr)})
	}
	return kNext
}

// jump moves to block b, with lasso (definite hang) detection on back edges.
func (fr *frame) jump(b *ssa.BasicBlock) {
	fr.prevBlock, fr.block = fr.block, b
	if b.Index <= fr.prevBlock.Index && b.Dominates(fr.prevBlock) { // back edge: the target dominates the source
		i := fr.i
		if fr.snaps == nil {
			fr.snaps = map[*ssa.BasicBlock]*loopSnap{}
		}
		// phi values on entry
		var phis []value
		predIndex := slices.Index(b.Preds, fr.prevBlock)
		for _, ins := range b.Instrs {
			phi, ok := ins.(*ssa.Phi)
			if !ok {
				break
			}
			phis = append(phis, fr.get(phi.Edges[predIndex]))
		}
		s := fr.snaps[b]
		if s != nil && s.clock == i.writeClock && s.pcLen == len(i.pm.pc) && samePhis(s.phis, phis) && len(i.threads) == 1 {
			panic(hangDetected{fmt.Sprintf("%s (%s)", fr.fn.String(), fr.pos(b.Instrs[len(b.Instrs)-1].Pos()))})
		}
		fr.snaps[b] = &loopSnap{i.writeClock, len(i.pm.pc), phis}
	}
}

func samePhis(a, b []value) bool {
	if len(a) != len(b) {
		return false
	}
	for k := range a {
		if !identical(a[k], b[k]) {
			return false
		}
	}
	return true
}

// identical is a cheap syntactic identity test on values.
func identical(a, b value) (r bool) {
	defer func() {
		if recover() != nil {
			r = false
		}
	}()
	switch x := a.(type) {
	case symv:
		y, ok := b.(symv)
		return ok && x.t == y.t
	case symstr:
		y, ok := b.(symstr)
		return ok && x.t == y.t
	case []value, *omap, structure, array, tuple, iface, *symslice, *sstr:
		return false
	}
	return a == b
}

// prepareCall determines the function value and argument values for a call.
func prepareCall(fr *frame, call *ssa.CallCommon, pos token.Pos) (fn value, args []value) {
	v := fr.get(call.Value)
	if call.Method == nil {
		fn = v
	} else {
		recv := v.(iface)
		if nt, ok := call.Value.Type().(*types.Named); ok && nt.Obj().Pkg() != nil && isStubbedPkg(nt.Obj().Pkg().Path()) {
			return noopFn{call.Signature()}, nil
		}
		if recv.t == nil {
			panic(runtimePanic{"method " + call.Method.Name() + " invoked on nil interface at " + fr.pos(pos)})
		}
		if f := lookupMethod(fr.i, recv.t, call.Method); f == nil {
			panic(engineError{fmt.Sprintf("method set for dynamic type %v does not contain %s", recv.t, call.Method)})
		} else {
			fn = f
		}
		args = append(args, recv.v)
	}
	for _, arg := range call.Args {
		args = append(args, fr.get(arg))
	}
	return
}

func call(i *interpreter, caller *frame, callpos token.Pos, fn value, args []value) value {
	switch fn := fn.(type) {
	case *ssa.Function:
		if fn == nil {
			where := ""
			if caller != nil {
				where = " at " + caller.pos(callpos)
			}
			panic(runtimePanic{"call of nil function" + where})
		}
		return callSSA(i, caller, callpos, fn, args, nil)
	case *closure:
		return callSSA(i, caller, callpos, fn.Fn, args, fn.Env)
	case *ssa.Builtin:
		return callBuiltin(caller, callpos, fn, args)
	case noopFn:
		return zeroResults(fn.sig)
	}
	panic(engineError{fmt.Sprintf("cannot call %T", fn)})
}

func callSSA(i *interpreter, caller *frame, callpos token.Pos, fn *ssa.Function, args []value, env []value) value {
	fr := &frame{i: i, caller: caller, fn: fn, callpos: callpos}
	if ext := i.w.lookupIntercept(i, fn); ext != nil {
		i.writeClock++
		return ext(fr, args)
	}
	if fn.Blocks == nil {
		panic(engineError{"no code for function: " + fn.String()})
	}
	if fn.TypeParams().Len() > 0 && len(fn.TypeArgs()) == 0 {
		panic(engineError{"uninstantiated generic " + fn.String()})
	}
	cov := i.w.coverFor(fn)

	fr.env = make(map[ssa.Value]value)
	fr.block = fn.Blocks[0]
	fr.locals = make([]value, len(fn.Locals))
	for k, l := range fn.Locals {
		fr.locals[k] = zero(mustDeref(l.Type()))
		fr.env[l] = &fr.locals[k]
	}
	for k, p := range fn.Params {
		fr.env[p] = args[k]
	}
	for k, fv := range fn.FreeVars {
		fr.env[fv] = env[k]
	}
	for fr.block != nil {
		runFrame(fr, cov)
	}
	return fr.result
}

// runFrame executes SSA instructions starting at fr.block and
// continuing until a return, a panic, or a recovered panic.
func runFrame(fr *frame, cov []bool) {
	defer func() {
		if fr.block == nil {
			return // normal return
		}
		r := recover()
		if len(fr.i.traceback) < 14 {
			fr.i.traceback = append(fr.i.traceback, fr.fn.String()+"@"+fr.pos(fr.callpos))
		}
		if isControl(r) {
			panic(r)
		}
		fr.panicking = true
		fr.panic = r
		fr.runDefers()
		fr.block = fr.fn.Recover
		if fr.block == nil {
			// recovered, function without named results: return zero
			fr.result = zeroResults(fr.fn.Signature)
		}
	}()

	for {
		if cov != nil {
			cov[fr.block.Index] = true
		}
		nonPhis := executePhis(fr)
		for _, instr := range nonPhis {
			if visitInstr(fr, instr) == kReturn {
				return
			}
		}
	}
}

func executePhis(fr *frame) []ssa.Instruction {
	firstNonPhi := -1
	for i, instr := range fr.block.Instrs {
		if _, ok := instr.(*ssa.Phi); !ok {
			firstNonPhi = i
			break
		}
	}
	nonPhis := fr.block.Instrs[firstNonPhi:]
	if firstNonPhi > 0 {
		phis := fr.block.Instrs[:firstNonPhi]
		predIndex := slices.Index(fr.block.Preds, fr.prevBlock)
		fr.phitemps = fr.phitemps[:0]
		for _, phi := range phis {
			phi := phi.(*ssa.Phi)
			fr.phitemps = append(fr.phitemps, fr.get(phi.Edges[predIndex]))
		}
		for i, phi := range phis {
			fr.env[phi.(*ssa.Phi)] = fr.phitemps[i]
		}
	}
	return nonPhis
}

// doRecover implements the recover() built-in.
func doRecover(caller *frame) value {
	if caller != nil && !caller.panicking &&
		caller.caller != nil && caller.caller.panicking {
		caller.caller.panicking = false
		p := caller.caller.panic
		caller.caller.panic = nil
		switch p := p.(type) {
		case targetPanic:
			return p.v
		case runtimePanic:
			return iface{types.Typ[types.String], p.msg}
		default:
			fmt.Fprintf(os.Stderr, "unexpected panic type %T in recover: %v\n", p, p)
			panic(p)
		}
	}
	return iface{}
}
