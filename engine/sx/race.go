package sx

// Happens-before data-race obligations (serves C07: "no interleaving ...
// depends on unsynchronised memory access"). Every explored schedule carries
// vector clocks; two accesses of one memory cell by different goroutines, one
// of them a write, that are not ordered by the synchronisation of that run
// (go statement, mutex, channel, WaitGroup, Once, sync/atomic) are reported as
// a violation of kind "race". As with the Go race detector the verdict covers
// all schedules that have the same synchronisation order as the explored one.
//
// Tracked: loads and stores through pointers (variables, struct fields, array
// and slice elements) and map operations, in code of the repository and its
// dependencies. Not tracked: the environment models and harness code
// (package zzverif/..., files zz_verif_*.go) - the models stand for the
// operating system and libraries, which synchronise internally - and the
// abstract byte objects.

import (
	"fmt"
	"go/token"
	"go/types"
	"sort"
	"strings"

	"golang.org/x/tools/go/ssa"
)

type vclock []int32

func (a vclock) join(b vclock) vclock {
	for len(a) < len(b) {
		a = append(a, 0)
	}
	for k, v := range b {
		if v > a[k] {
			a[k] = v
		}
	}
	return a
}

func (a vclock) at(k int) int32 {
	if k < len(a) {
		return a[k]
	}
	return 0
}

func (a vclock) clone() vclock { return append(vclock(nil), a...) }

type cellHist struct {
	wT   int // thread of the last write (-1: none)
	wC   int32
	wPos string
	rC   []int32 // per thread: clock of its last read since that write
	rPos []string
}

type raceState struct {
	cells    map[interface{}]*cellHist
	sync     map[interface{}]vclock
	skipFn   map[*ssa.Function]bool
	reported map[string]bool
}

func (i *interpreter) raceOn() bool { return i.pm.cfg.Races && len(i.threads) > 1 }

func (i *interpreter) raceInit() {
	if i.race == nil {
		i.race = &raceState{cells: map[interface{}]*cellHist{}, sync: map[interface{}]vclock{}, skipFn: map[*ssa.Function]bool{}, reported: map[string]bool{}}
	}
}

func (t *thread) tick() {
	for len(t.vc) <= t.id {
		t.vc = append(t.vc, 0)
	}
	t.vc[t.id]++
}

// raceFork: the go statement orders everything before it with the new goroutine.
func (i *interpreter) raceFork(parent, child *thread) {
	if !i.pm.cfg.Races {
		return
	}
	i.raceInit()
	parent.tick()
	child.vc = parent.vc.clone()
	child.tick()
	parent.tick()
}

// raceAcquire / raceRelease: synchronisation through obj.
func (i *interpreter) raceAcquire(obj interface{}) {
	if !i.pm.cfg.Races || i.race == nil {
		return
	}
	if v, ok := i.race.sync[obj]; ok {
		i.cur.vc = i.cur.vc.join(v)
	}
}

func (i *interpreter) raceRelease(obj interface{}) {
	if !i.pm.cfg.Races || i.race == nil {
		return
	}
	i.cur.tick()
	i.race.sync[obj] = i.race.sync[obj].join(i.cur.vc)
	i.cur.tick()
}

// raceJoinAll: the harness's Quiesce observes everything the goroutines did.
func (i *interpreter) raceJoinAll() {
	if !i.pm.cfg.Races || i.race == nil {
		return
	}
	for _, t := range i.threads {
		i.cur.vc = i.cur.vc.join(t.vc)
	}
}

func (i *interpreter) raceSkip(fr *frame) bool {
	if fr == nil || fr.fn == nil {
		return true
	}
	if s, ok := i.race.skipFn[fr.fn]; ok {
		return s
	}
	skip := false
	fn := fr.fn
	for fn.Parent() != nil {
		fn = fn.Parent()
	}
	if fn.Pkg != nil && strings.Contains(fn.Pkg.Pkg.Path(), "/zzverif/") {
		skip = true
	}
	if fn.Pkg == nil {
		skip = true // synthetic wrappers
	}
	if p := fr.fn.Pos(); p.IsValid() {
		file := fr.fn.Prog.Fset.Position(p).Filename
		if k := strings.LastIndexByte(file, '/'); k >= 0 {
			file = file[k+1:]
		}
		if strings.HasPrefix(file, "zz_verif_") {
			skip = true
		}
	}
	i.race.skipFn[fr.fn] = skip
	return skip
}

// raceAccess records an access of the cell(s) of type T at addr.
func (i *interpreter) raceAccess(fr *frame, addr *value, T types.Type, write bool, pos token.Pos) {
	if !i.raceOn() || addr == nil {
		return
	}
	i.raceInit()
	if i.raceSkip(fr) {
		return
	}
	i.raceCells(fr, addr, T, write, pos, 0)
}

// raceObj records an access of an engine-level object (a map).
func (i *interpreter) raceObj(fr *frame, obj interface{}, write bool, pos token.Pos) {
	if !i.raceOn() || obj == nil {
		return
	}
	i.raceInit()
	if i.raceSkip(fr) {
		return
	}
	i.raceCell(fr, obj, write, pos)
}

func (i *interpreter) raceCells(fr *frame, addr *value, T types.Type, write bool, pos token.Pos, depth int) {
	if depth < 3 && T != nil {
		switch U := T.Underlying().(type) {
		case *types.Struct:
			if v, ok := (*addr).(structure); ok {
				for k := range v {
					i.raceCells(fr, &v[k], U.Field(k).Type(), write, pos, depth+1)
				}
				return
			}
		case *types.Array:
			if v, ok := (*addr).(array); ok && len(v) <= 16 {
				for k := range v {
					i.raceCells(fr, &v[k], U.Elem(), write, pos, depth+1)
				}
				return
			}
		}
	}
	i.raceCell(fr, addr, write, pos)
}

func (i *interpreter) raceCell(fr *frame, cell interface{}, write bool, pos token.Pos) {
	t := i.cur
	h := i.race.cells[cell]
	if h == nil {
		h = &cellHist{wT: -1}
		i.race.cells[cell] = h
	}
	here := fr.pos(pos)
	if h.wT >= 0 && h.wT != t.id && h.wC > t.vc.at(h.wT) {
		i.raceReport(fr, h.wPos, "write", here, map[bool]string{true: "write", false: "read"}[write])
	}
	if write {
		for u, c := range h.rC {
			if u != t.id && c > t.vc.at(u) {
				i.raceReport(fr, h.rPos[u], "read", here, "write")
			}
		}
		h.wT, h.wC, h.wPos = t.id, t.vc.at(t.id), here
		h.rC, h.rPos = nil, nil
		return
	}
	for len(h.rC) <= t.id {
		h.rC = append(h.rC, 0)
		h.rPos = append(h.rPos, "")
	}
	h.rC[t.id], h.rPos[t.id] = t.vc.at(t.id), here
}

func (i *interpreter) raceReport(fr *frame, pos1, kind1, pos2, kind2 string) {
	a := []string{kind1 + " at " + pos1, kind2 + " at " + pos2}
	sort.Strings(a)
	// a race in the blob-search worker pool also means the answer of FindMissing (C10) and of the
	// dependency check (C06) is not determined by the cache state: the label carries those tags too
	label := fmt.Sprintf("C06-C07-C10-data-race: unsynchronised %s and %s", a[0], a[1])
	if i.race.reported[label] {
		return
	}
	i.race.reported[label] = true
	i.pm.raceViolation(label)
}
