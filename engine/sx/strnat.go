package sx

// Natives of the string mode: strings.*, strconv.*, regexp on symbolic strings.

import (
	"fmt"
	"go/token"
	"go/types"
	"regexp/syntax"
	"strconv"
	"strings"
)

func boolTerm(t string) value { return symv{t, types.Bool} }

func anySymStr(a []value) bool {
	for _, v := range a {
		if isSymStr(v) {
			return true
		}
		if xs, ok := v.([]value); ok {
			for _, e := range xs {
				if isSymStr(e) {
					return true
				}
			}
		}
	}
	return false
}

// withSym wraps a concrete native so that symbolic-string arguments are
// handled by sym.
func withSym(conc externalFn, sym externalFn) externalFn {
	return func(fr *frame, a []value) value {
		if anySymStr(a) {
			return sym(fr, a)
		}
		return conc(fr, a)
	}
}

func (i *interpreter) strSplit(fr *frame, s symstr, sep string, limit int) value {
	if sep == "" {
		panic(engineError{"strings.Split of a symbolic string with empty separator"})
	}
	max := i.pm.cfg.SplitMax
	if limit > 0 && limit < max {
		max = limit
	}
	pm := i.pm
	if pm.concrete != nil {
		panic(engineError{"symbolic split in concrete replay"})
	}
	// alternative k (1-based): s = p0 sep p1 ... sep p(k-1), no piece contains sep
	// (for SplitN with limit reached the last piece may contain sep)
	id := i.newID()
	piece := func(k, j int) string { return fmt.Sprintf("|split%d_%d_%d|", id, k, j) }
	var conds []string
	for k := 1; k <= max; k++ {
		var parts, cs []string
		for j := 0; j < k; j++ {
			p := piece(k, j)
			if !pm.w.declared[p] {
				pm.w.declared[p] = true
				pm.sol.declare("(declare-const " + p + " String)")
			}
			if j > 0 {
				parts = append(parts, smtString(sep))
			}
			parts = append(parts, p)
			if !(limit > 0 && k == limit && j == k-1) {
				cs = append(cs, "(not (str.contains "+p+" "+smtString(sep)+"))")
			}
		}
		cat := parts[0]
		if len(parts) > 1 {
			cat = "(str.++ " + strings.Join(parts, " ") + ")"
		}
		cs = append(cs, "(= "+s.t+" "+cat+")")
		conds = append(conds, "(and "+strings.Join(cs, " ")+")")
	}
	// more pieces than the bound
	tooMany := ""
	if !(limit > 0 && limit <= i.pm.cfg.SplitMax) {
		var cs []string
		var parts []string
		for j := 0; j < max; j++ {
			p := piece(max+1, j)
			if !pm.w.declared[p] {
				pm.w.declared[p] = true
				pm.sol.declare("(declare-const " + p + " String)")
			}
			parts = append(parts, p, smtString(sep))
			cs = append(cs, "(not (str.contains "+p+" "+smtString(sep)+"))")
		}
		rest := piece(max+1, max)
		if !pm.w.declared[rest] {
			pm.w.declared[rest] = true
			pm.sol.declare("(declare-const " + rest + " String)")
		}
		parts = append(parts, rest)
		cs = append(cs, "(= "+s.t+" (str.++ "+strings.Join(parts, " ")+"))")
		tooMany = "(and " + strings.Join(cs, " ") + ")"
		conds = append(conds, tooMany)
	}
	c := pm.branch(conds, false)
	if tooMany != "" && c == len(conds)-1 {
		panic(unwindExceeded{fmt.Sprintf("strings.Split produces more than %d pieces at %s", max, fr.pos(token.NoPos))})
	}
	k := c + 1
	out := make([]value, k)
	for j := 0; j < k; j++ {
		out[j] = symstr{piece(k, j)}
	}
	return out
}

// parseIntSym models strconv.ParseInt(s, 10, 64) / Atoi on a symbolic string.
// Three alternatives: syntactically invalid or out of range -> error; valid.
func (i *interpreter) parseIntSym(fr *frame, s symstr, bits int) (value, value) {
	pm := i.pm
	digits := "(re.+ (re.range \"0\" \"9\"))"
	valid := "(str.in_re " + s.t + " (re.++ (re.opt (re.union (str.to_re \"+\") (str.to_re \"-\"))) " + digits + "))"
	neg := "(str.prefixof \"-\" " + s.t + ")"
	body := "(ite (or " + neg + " (str.prefixof \"+\" " + s.t + ")) (str.substr " + s.t + " 1 (- (str.len " + s.t + ") 1)) " + s.t + ")"
	val := "(ite " + neg + " (- (str.to_int " + body + ")) (str.to_int " + body + "))"
	lo, hi := "(- 9223372036854775808)", "9223372036854775807"
	if bits == 32 {
		lo, hi = "(- 2147483648)", "2147483647"
	}
	inRange := "(and (<= " + lo + " " + val + ") (<= " + val + " " + hi + "))"
	ok := "(and " + valid + " " + inRange + ")"
	c := pm.branch([]string{ok, "(not " + ok + ")"}, true)
	if c == 1 {
		return int64(0), i.mkError("strconv.ParseInt: parsing: invalid syntax or out of range")
	}
	return fromIntTerm(val, types.Int64), iface{}
}

func regexPattern(v value) string { return regexOf(v).String() }

func init() {
	st := func(a value) symstr {
		if s, ok := a.(symstr); ok {
			return s
		}
		return symstr{smtString(a.(string))}
	}
	wrap := func(name string, sym externalFn) {
		conc := natives[name]
		if conc == nil {
			panic("strnat: no concrete native " + name)
		}
		natives[name] = withSym(conc, sym)
	}
	wrap("strings.HasPrefix", func(fr *frame, a []value) value {
		return boolTerm("(str.prefixof " + strTerm(a[1]) + " " + strTerm(a[0]) + ")")
	})
	wrap("strings.HasSuffix", func(fr *frame, a []value) value {
		return boolTerm("(str.suffixof " + strTerm(a[1]) + " " + strTerm(a[0]) + ")")
	})
	wrap("strings.Contains", func(fr *frame, a []value) value {
		return boolTerm("(str.contains " + strTerm(a[0]) + " " + strTerm(a[1]) + ")")
	})
	wrap("strings.ContainsAny", func(fr *frame, a []value) value {
		chars := str(a[1])
		var cs []string
		for _, r := range chars {
			cs = append(cs, "(str.contains "+strTerm(a[0])+" "+smtString(string(r))+")")
		}
		if len(cs) == 0 {
			return false
		}
		if len(cs) == 1 {
			return boolTerm(cs[0])
		}
		return boolTerm("(or " + strings.Join(cs, " ") + ")")
	})
	wrap("strings.TrimPrefix", func(fr *frame, a []value) value {
		s, p := strTerm(a[0]), strTerm(a[1])
		return symstr{"(ite (str.prefixof " + p + " " + s + ") (str.substr " + s + " (str.len " + p + ") (- (str.len " + s + ") (str.len " + p + "))) " + s + ")"}
	})
	wrap("strings.TrimSuffix", func(fr *frame, a []value) value {
		s, p := strTerm(a[0]), strTerm(a[1])
		return symstr{"(ite (str.suffixof " + p + " " + s + ") (str.substr " + s + " 0 (- (str.len " + s + ") (str.len " + p + "))) " + s + ")"}
	})
	wrap("strings.Index", func(fr *frame, a []value) value {
		return fromIntTerm("(str.indexof "+strTerm(a[0])+" "+strTerm(a[1])+" 0)", types.Int)
	})
	wrap("strings.Split", func(fr *frame, a []value) value {
		return fr.i.strSplit(fr, st(a[0]), str(a[1]), -1)
	})
	wrap("strings.SplitN", func(fr *frame, a []value) value {
		return fr.i.strSplit(fr, st(a[0]), str(a[1]), int(concInt(a[2], "SplitN count")))
	})
	wrap("strings.Join", func(fr *frame, a []value) value {
		var out value = ""
		for k, e := range a[0].([]value) {
			if k > 0 {
				out = concatStr(out, a[1])
			}
			out = concatStr(out, e)
		}
		return out
	})
	wrap("strings.ToLower", func(fr *frame, a []value) value {
		panic(engineError{"strings.ToLower on a symbolic string"})
	})
	wrap("strconv.ParseInt", func(fr *frame, a []value) value {
		if concInt(a[1], "base") != 10 {
			panic(engineError{"ParseInt base != 10 on symbolic string"})
		}
		v, err := fr.i.parseIntSym(fr, st(a[0]), int(concInt(a[2], "bits")))
		return tuple{v, err}
	})
	wrap("strconv.Atoi", func(fr *frame, a []value) value {
		v, err := fr.i.parseIntSym(fr, st(a[0]), 64)
		return tuple{conv(tInt, types.Typ[types.Int64], v), err}
	})
	wrap("(*regexp.Regexp).MatchString", func(fr *frame, a []value) value {
		return boolTerm(regexMatchTerm(regexPattern(a[0]), strTerm(a[1])))
	})
	wrap("(*regexp.Regexp).FindStringSubmatch", func(fr *frame, a []value) value {
		return fr.i.findSubmatchSym(fr, regexPattern(a[0]), st(a[1]))
	})
	// decimal text of symbolic integers
	decimal := func(conc externalFn) externalFn {
		return func(fr *frame, a []value) value {
			if sv, ok := a[0].(symv); ok {
				if len(a) > 1 && concInt(a[1], "base") != 10 {
					panic(engineError{"FormatInt base != 10 on a symbolic integer"})
				}
				t := toInt(sv).(symv)
				return (&sstr{[]spart{{sym: &t}}}).norm()
			}
			return conc(fr, a)
		}
	}
	natives["strconv.FormatInt"] = decimal(natives["strconv.FormatInt"])
	natives["strconv.Itoa"] = decimal(natives["strconv.Itoa"])
	_ = strconv.Itoa
}

// findSubmatchSym: FindStringSubmatch for anchored patterns that are a
// concatenation of pieces: s = g0 ++ g1 ... with each capture group a fresh
// string constrained by its sub-regex. Optional groups that do not
// participate are "". Where several decompositions exist, Go's
// leftmost-first preference is encoded for greedy optional/star pieces by
// requiring that no longer choice for an earlier piece yields a match.
func (i *interpreter) findSubmatchSym(fr *frame, pattern string, s symstr) value {
	re, err := syntax.Parse(pattern, syntax.Perl)
	if err != nil {
		panic(engineError{"regexp: " + err.Error()})
	}
	b, e := anchoring(re)
	if !b || !e || re.Op != syntax.OpConcat {
		panic(engineError{"FindStringSubmatch on a symbolic string needs an anchored concatenation: " + pattern})
	}
	pm := i.pm
	id := i.newID()
	ncap := re.MaxCap()
	groups := make([]value, ncap+1)
	groups[0] = s
	for k := 1; k <= ncap; k++ {
		groups[k] = ""
	}
	var parts []string
	var cs []string
	fresh := func(tag string, k int) string {
		n := fmt.Sprintf("|re%d_%s%d|", id, tag, k)
		if !pm.w.declared[n] {
			pm.w.declared[n] = true
			pm.sol.declare("(declare-const " + n + " String)")
		}
		return n
	}
	pieces := re.Sub[1 : len(re.Sub)-1]
	if r, ok := i.matchPieces(fr, pattern, pieces, ncap, s); ok {
		return r
	}
	for k, p := range pieces {
		v := fresh("p", k)
		parts = append(parts, v)
		cs = append(cs, "(str.in_re "+v+" "+reToSMT(p)+")")
		// capture directly at top level, or inside an optional
		switch {
		case p.Op == syntax.OpCapture:
			groups[p.Cap] = symstr{v}
		case p.Op == syntax.OpQuest && p.Sub[0].Op == syntax.OpCapture:
			groups[p.Sub[0].Cap] = symstr{v} // "" when the optional group does not participate
		default:
			if p.MaxCap() > 0 && containsCapture(p) {
				panic(engineError{"nested capture group in " + pattern})
			}
		}
	}
	cat := parts[0]
	if len(parts) > 1 {
		cat = "(str.++ " + strings.Join(parts, " ") + ")"
	}
	cs = append(cs, "(= "+s.t+" "+cat+")")
	match := "(and " + strings.Join(cs, " ") + ")"
	whole := regexMatchTerm(pattern, s.t)
	// leftmost-first: a greedy optional piece X? is taken whenever taking it
	// still allows a match: (p_k = "") => rest_k not in (X minus "") . tail_k
	prefs := func(ps []string) []string {
		var out []string
		for k, p := range pieces {
			if p.Op == syntax.OpQuest && p.Flags&syntax.NonGreedy == 0 {
				rest := ps[k]
				if k+1 < len(ps) {
					rest = "(str.++ " + strings.Join(ps[k:], " ") + ")"
				}
				var tail []string
				tail = append(tail, "(re.diff "+reToSMT(p.Sub[0])+" (str.to_re \"\"))")
				for _, q := range pieces[k+1:] {
					tail = append(tail, reToSMT(q))
				}
				lang := tail[0]
				if len(tail) > 1 {
					lang = "(re.++ " + strings.Join(tail, " ") + ")"
				}
				out = append(out, "(=> (= "+ps[k]+" \"\") (not (str.in_re "+rest+" "+lang+")))")
			}
		}
		return out
	}
	cs = append(cs, prefs(parts)...)
	match = "(and " + strings.Join(cs, " ") + ")"
	c := pm.branch([]string{match, "(not " + whole + ")"}, false)
	if c == 1 {
		return []value(nil)
	}
	// the decomposition must now be unique (greedy stars are not ordered by
	// this encoding): is there a second one?
	var q []string
	var qcs []string
	for k, p := range pieces {
		v := fresh("q", k)
		q = append(q, v)
		qcs = append(qcs, "(str.in_re "+v+" "+reToSMT(p)+")")
	}
	qcat := q[0]
	if len(q) > 1 {
		qcat = "(str.++ " + strings.Join(q, " ") + ")"
	}
	qcs = append(qcs, "(= "+s.t+" "+qcat+")")
	qcs = append(qcs, prefs(q)...)
	var diff []string
	for k := range q {
		diff = append(diff, "(not (= "+q[k]+" "+parts[k]+"))")
	}
	qcs = append(qcs, "(or "+strings.Join(diff, " ")+")")
	if r := pm.checkSat("(and " + strings.Join(qcs, " ") + ")"); r != "unsat" {
		panic(engineError{"regexp decomposition is not unique under the leftmost-first encoding (" + r + "): " + pattern})
	}
	out := make([]value, ncap+1)
	copy(out, groups)
	return out
}

func containsCapture(re *syntax.Regexp) bool {
	if re.Op == syntax.OpCapture {
		return true
	}
	for _, s := range re.Sub {
		if containsCapture(s) {
			return true
		}
	}
	return false
}
