package sx

// String mode: Go strings as SMT-LIB String terms (decided by cvc5).
// Lengths and parsed numbers are mathematical Ints on the solver side; where
// the program needs a machine integer the term is ((_ int2bv 64) I) and the
// Int form is remembered so that comparisons stay in linear integer arithmetic.

import (
	"fmt"
	"go/token"
	"go/types"
	"regexp/syntax"
	"strings"
	"sync"
	"unicode/utf8"
)

type symstr struct{ t string }

// intForms maps a bit-vector term to the mathematical-integer term it was made from.
var intForms sync.Map

func fromIntTerm(it string, k types.BasicKind) symv {
	t := fmt.Sprintf("((_ int2bv %d) %s)", width(k), it)
	intForms.Store(t, it)
	return symv{t, k}
}

func intFormOf(v value) (string, bool) {
	switch x := v.(type) {
	case symv:
		if it, ok := intForms.Load(x.t); ok {
			return it.(string), true
		}
		return "", false
	case bool, string, *sstr, symstr:
		return "", false
	}
	n := asInt64(v)
	if n < 0 {
		return fmt.Sprintf("(- %d)", -n), true
	}
	return fmt.Sprint(n), true
}

// intCompare returns the Int-level comparison when both operands have Int forms.
func intCompare(op token.Token, x, y value) (value, bool) {
	_, sx := x.(symv)
	_, sy := y.(symv)
	if !sx && !sy {
		return nil, false
	}
	a, ok1 := intFormOf(x)
	b, ok2 := intFormOf(y)
	if !ok1 || !ok2 {
		return nil, false
	}
	var f string
	switch op {
	case token.EQL:
		f = "="
	case token.NEQ:
		return symv{"(not (= " + a + " " + b + "))", types.Bool}, true
	case token.LSS:
		f = "<"
	case token.LEQ:
		f = "<="
	case token.GTR:
		f = ">"
	case token.GEQ:
		f = ">="
	default:
		return nil, false
	}
	return symv{"(" + f + " " + a + " " + b + ")", types.Bool}, true
}

// smtString quotes a Go string as an SMT-LIB string literal.
func smtString(s string) string {
	var b strings.Builder
	b.WriteByte('"')
	for _, r := range s {
		switch {
		case r == '"':
			b.WriteString("\"\"")
		case r == '\\' || r < 0x20 || r > 0x7e:
			fmt.Fprintf(&b, "\\u{%x}", r)
		default:
			b.WriteRune(r)
		}
	}
	b.WriteByte('"')
	return b.String()
}

func strTerm(v value) string {
	switch x := v.(type) {
	case string:
		return smtString(x)
	case symstr:
		return x.t
	}
	panic(engineError{fmt.Sprintf("string-mode operation on %T", v)})
}

func isSymStr(v value) bool { _, ok := v.(symstr); return ok }

func strBinop(op token.Token, x, y value) value {
	a, b := strTerm(x), strTerm(y)
	switch op {
	case token.ADD:
		return symstr{"(str.++ " + a + " " + b + ")"}
	case token.EQL:
		return symv{"(= " + a + " " + b + ")", types.Bool}
	case token.NEQ:
		return symv{"(not (= " + a + " " + b + "))", types.Bool}
	case token.LSS:
		return symv{"(str.< " + a + " " + b + ")", types.Bool}
	case token.LEQ:
		return symv{"(str.<= " + a + " " + b + ")", types.Bool}
	case token.GTR:
		return symv{"(str.< " + b + " " + a + ")", types.Bool}
	case token.GEQ:
		return symv{"(str.<= " + b + " " + a + ")", types.Bool}
	}
	panic(engineError{"string operator " + op.String()})
}

func strLen(s symstr) value { return fromIntTerm("(str.len "+s.t+")", types.Int) }

// intArg renders an int value as an Int term.
func intArg(v value) string {
	if it, ok := intFormOf(v); ok {
		return it
	}
	if s, ok := v.(symv); ok {
		if signed(s.k) {
			// two's complement to Int
			w := width(s.k)
			return fmt.Sprintf("(ite (bvslt %s %s) (- (bv2nat %s) %s) (bv2nat %s))", s.t, lit(0, w), s.t, pow2(w), s.t)
		}
		return "(bv2nat " + s.t + ")"
	}
	panic(engineError{"intArg"})
}

func pow2(w int) string {
	switch w {
	case 8:
		return "256"
	case 16:
		return "65536"
	case 32:
		return "4294967296"
	}
	return "18446744073709551616"
}

func (i *interpreter) strSlice(fr *frame, s symstr, lo, hi value, pos token.Pos) value {
	l := "0"
	if lo != nil {
		l = intArg(lo)
	}
	h := "(str.len " + s.t + ")"
	if hi != nil {
		h = intArg(hi)
	}
	i.require(fr, symv{"(and (<= 0 " + l + ") (<= " + l + " " + h + ") (<= " + h + " (str.len " + s.t + ")))", types.Bool}, "slice bounds out of range", pos)
	return symstr{"(str.substr " + s.t + " " + l + " (- " + h + " " + l + "))"}
}

func (i *interpreter) strIndex(fr *frame, s symstr, idx value, pos token.Pos) value {
	ix := intArg(idx)
	i.require(fr, symv{"(and (<= 0 " + ix + ") (< " + ix + " (str.len " + s.t + ")))", types.Bool}, "index out of range", pos)
	return fromIntTerm("(str.to_code (str.at "+s.t+" "+ix+"))", types.Uint8)
}

// ---- regular expressions: Go syntax -> SMT-LIB RegLan

func reLit(r rune) string { return "(str.to_re " + smtString(string(r)) + ")" }

func reClass(rs []rune) string {
	var parts []string
	for k := 0; k+1 < len(rs); k += 2 {
		lo, hi := rs[k], rs[k+1]
		if hi > 0x2FFFF {
			hi = 0x2FFFF
		}
		if lo > hi {
			continue
		}
		if lo == hi {
			parts = append(parts, reLit(lo))
		} else {
			parts = append(parts, "(re.range "+smtString(string(lo))+" "+smtString(string(hi))+")")
		}
	}
	switch len(parts) {
	case 0:
		return "re.none"
	case 1:
		return parts[0]
	}
	return "(re.union " + strings.Join(parts, " ") + ")"
}

// reToSMT translates a parsed Go regexp (anchors must only occur at the ends
// and are handled by the caller).
func reToSMT(re *syntax.Regexp) string {
	switch re.Op {
	case syntax.OpEmptyMatch, syntax.OpBeginText, syntax.OpEndText, syntax.OpBeginLine, syntax.OpEndLine:
		return "(str.to_re \"\")"
	case syntax.OpLiteral:
		return "(str.to_re " + smtString(string(re.Rune)) + ")"
	case syntax.OpCharClass:
		return reClass(re.Rune)
	case syntax.OpAnyCharNotNL:
		return "(re.diff re.allchar (str.to_re \"\\u{a}\"))"
	case syntax.OpAnyChar:
		return "re.allchar"
	case syntax.OpCapture:
		return reToSMT(re.Sub[0])
	case syntax.OpStar:
		return "(re.* " + reToSMT(re.Sub[0]) + ")"
	case syntax.OpPlus:
		return "(re.+ " + reToSMT(re.Sub[0]) + ")"
	case syntax.OpQuest:
		return "(re.opt " + reToSMT(re.Sub[0]) + ")"
	case syntax.OpRepeat:
		if re.Max < 0 {
			return fmt.Sprintf("(re.++ ((_ re.loop %d %d) %s) (re.* %s))", re.Min, re.Min, reToSMT(re.Sub[0]), reToSMT(re.Sub[0]))
		}
		return fmt.Sprintf("((_ re.loop %d %d) %s)", re.Min, re.Max, reToSMT(re.Sub[0]))
	case syntax.OpConcat:
		var ps []string
		for _, s := range re.Sub {
			ps = append(ps, reToSMT(s))
		}
		if len(ps) == 1 {
			return ps[0]
		}
		return "(re.++ " + strings.Join(ps, " ") + ")"
	case syntax.OpAlternate:
		var ps []string
		for _, s := range re.Sub {
			ps = append(ps, reToSMT(s))
		}
		return "(re.union " + strings.Join(ps, " ") + ")"
	}
	panic(engineError{"unsupported regexp construct " + re.Op.String()})
}

// anchoring reports whether the pattern starts with ^ and ends with $.
func anchoring(re *syntax.Regexp) (begin, end bool) {
	if re.Op == syntax.OpConcat && len(re.Sub) > 0 {
		begin = re.Sub[0].Op == syntax.OpBeginText || re.Sub[0].Op == syntax.OpBeginLine
		last := re.Sub[len(re.Sub)-1]
		end = last.Op == syntax.OpEndText || last.Op == syntax.OpEndLine
	}
	return
}

func regexMatchTerm(pattern string, s string) string {
	re, err := syntax.Parse(pattern, syntax.Perl)
	if err != nil {
		panic(engineError{"regexp: " + err.Error()})
	}
	re = re.Simplify()
	b, e := anchoring(re)
	r := reToSMT(re)
	if !b {
		r = "(re.++ re.all " + r + ")"
	}
	if !e {
		r = "(re.++ " + r + " re.all)"
	}
	return "(str.in_re " + s + " " + r + ")"
}

// ---- model values

// parseSMTString decodes an SMT-LIB string literal "..." with \u{..} escapes.
func parseSMTString(lit string) (string, bool) {
	lit = strings.TrimSpace(lit)
	if len(lit) < 2 || lit[0] != '"' || lit[len(lit)-1] != '"' {
		return "", false
	}
	in := lit[1 : len(lit)-1]
	var b strings.Builder
	for k := 0; k < len(in); {
		switch {
		case in[k] == '"' && k+1 < len(in) && in[k+1] == '"':
			b.WriteByte('"')
			k += 2
		case strings.HasPrefix(in[k:], "\\u{"):
			j := strings.IndexByte(in[k:], '}')
			var r rune
			fmt.Sscanf(in[k+3:k+j], "%x", &r)
			b.WriteRune(r)
			k += j + 1
		case strings.HasPrefix(in[k:], "\\u") && k+6 <= len(in):
			var r rune
			fmt.Sscanf(in[k+2:k+6], "%x", &r)
			b.WriteRune(r)
			k += 6
		default:
			r, sz := utf8.DecodeRuneInString(in[k:])
			b.WriteRune(r)
			k += sz
		}
	}
	return b.String(), true
}
