package sx

import (
	"bufio"
	"context"
	"fmt"
	"io"
	"os"
	"os/exec"
	"path/filepath"
	"strings"
	"sync/atomic"
	"time"
)

// solver is one live incremental z3 process plus the fall-back portfolio.
type solver struct {
	cmd   *exec.Cmd
	in    io.WriteCloser
	out   *bufio.Reader
	decls []string
	stack []string // assertions currently on the solver's stack (for fall-back files)
	marks []int

	Queries, Fallbacks, Unknowns int
	Dur                          time.Duration
	BySolver                     map[string]int
	workDir                      string
	id                           int
	capMs                        int
	kind                         string // "z3" or "cvc5" (string mode)
	Restarts                     int
	restarted                    bool
	seq                          int
	lastBy                       string // which solver answered the last check
	lastQuery                    string // file holding the last fall-back query (kept on request)
}

var solverSeq int32

func newSolver(workDir string, capMs int, kind string) *solver {
	s := &solver{workDir: workDir, id: int(atomic.AddInt32(&solverSeq, 1)), BySolver: map[string]int{}, capMs: capMs, kind: kind}
	s.start()
	return s
}

func (s *solver) start() {
	// memory-limited (a runaway solver must not take the machine down)
	line := fmt.Sprintf("ulimit -v 8000000; exec z3-new -in -t:%d", s.capMs)
	if s.kind == "cvc5" {
		line = fmt.Sprintf("ulimit -v 8000000; exec cvc5 --incremental --strings-exp --produce-models --tlimit-per=%d", s.capMs*2)
	}
	cmd := exec.Command("sh", "-c", line)
	in, _ := cmd.StdinPipe()
	outp, _ := cmd.StdoutPipe()
	cmd.Stderr = os.Stderr
	if err := cmd.Start(); err != nil {
		panic(engineError{"cannot start z3-new: " + err.Error()})
	}
	s.cmd, s.in, s.out = cmd, in, bufio.NewReader(outp)
	if s.kind == "cvc5" {
		s.raw("(set-logic ALL)")
	}
	s.raw("(set-option :global-declarations true)")
	s.raw("(set-option :produce-models true)")
	for _, d := range s.decls {
		s.raw(d)
	}
}

func (s *solver) close() {
	if s.cmd != nil {
		s.in.Close()
		s.cmd.Process.Kill()
		s.cmd.Wait()
		s.cmd = nil
	}
}

func (s *solver) raw(cmd string) {
	if solverLog != "" {
		f, _ := os.OpenFile(fmt.Sprintf("%s.%d", solverLog, s.id), os.O_APPEND|os.O_CREATE|os.O_WRONLY, 0644)
		f.WriteString(cmd + "\n")
		f.Close()
	}
	io.WriteString(s.in, cmd+"\n")
}

var solverLog = os.Getenv("GOSMX_SOLVERLOG")

func (s *solver) logResp(t string) {
	if solverLog != "" {
		f, _ := os.OpenFile(fmt.Sprintf("%s.%d", solverLog, s.id), os.O_APPEND|os.O_CREATE|os.O_WRONLY, 0644)
		f.WriteString(";; <- " + strings.ReplaceAll(t, "\n", " ") + "\n")
		f.Close()
	}
}

func (s *solver) declare(d string) {
	s.decls = append(s.decls, d)
	s.raw(d)
}

func (s *solver) push() {
	s.marks = append(s.marks, len(s.stack))
	s.raw("(push)")
}

func (s *solver) pop() {
	n := s.marks[len(s.marks)-1]
	s.marks = s.marks[:len(s.marks)-1]
	s.stack = s.stack[:n]
	s.raw("(pop)")
}

func (s *solver) assert(t string) {
	s.stack = append(s.stack, t)
	s.raw("(assert " + t + ")")
}

// readSexp reads one answer with a wall-clock watchdog; a solver that does not
// answer in time is killed and restarted and the answer is "unknown".
func (s *solver) readSexp() string {
	type res struct {
		txt string
		err interface{}
	}
	ch := make(chan res, 1)
	go func() {
		defer func() {
			if r := recover(); r != nil {
				ch <- res{"", r}
			}
		}()
		ch <- res{s.readSexp1(), nil}
	}()
	limit := time.Duration(s.capMs*4+5000) * time.Millisecond
	select {
	case r := <-ch:
		if r.err != nil {
			s.logResp(fmt.Sprintf("ERR %v", r.err))
			s.restart()
			return "unknown"
		}
		s.logResp(r.txt)
		return r.txt
	case <-time.After(limit):
		s.logResp("WATCHDOG")
		s.restart()
		return "unknown"
	}
}

// restart kills the solver process and brings a new one to the same state.
func (s *solver) restart() {
	s.Restarts++
	if s.cmd != nil {
		s.cmd.Process.Kill()
		s.in.Close()
		s.cmd.Wait()
	}
	s.start()
	// re-establish the assertion stack
	prev := 0
	for _, m := range s.marks {
		for _, a := range s.stack[prev:m] {
			io.WriteString(s.in, "(assert "+a+")\n")
		}
		io.WriteString(s.in, "(push)\n")
		prev = m
	}
	for _, a := range s.stack[prev:] {
		io.WriteString(s.in, "(assert "+a+")\n")
	}
	s.restarted = true
}

func (s *solver) readSexp1() string {
	var b strings.Builder
	depth := 0
	started := false
	for {
		l, err := s.out.ReadString('\n')
		if err != nil {
			panic(engineError{"solver died: " + err.Error()})
		}
		inBar := false
		for _, c := range l {
			switch {
			case c == '|':
				inBar = !inBar
			case inBar:
			case c == '(':
				depth++
				started = true
			case c == ')':
				depth--
			}
		}
		b.WriteString(l)
		t := strings.TrimSpace(b.String())
		if t == "" {
			continue
		}
		if !started || depth <= 0 {
			return t
		}
	}
}

// roundTrip reads the answers of everything sent so far up to a fresh echo
// marker. Any "(error" among them - also an unsolicited one for an earlier
// push/assert, e.g. z3's "push canceled" when its timer fires inside a push -
// means the solver's assertion stack can no longer be trusted: the caller
// must restart it. Reading up to a marker (instead of "one answer per
// command") keeps the dialogue in step whatever the solver prints.
func (s *solver) roundTrip() (answers []string, bad bool) {
	s.seq++
	mark := fmt.Sprintf("@@%d@@", s.seq)
	s.raw("(echo \"" + mark + "\")")
	for {
		r := s.readSexp()
		if s.restarted {
			return nil, true
		}
		t := strings.Trim(strings.TrimSpace(r), "\"")
		if t == mark {
			return answers, bad
		}
		if strings.HasPrefix(strings.TrimSpace(r), "(error") {
			bad = true
			if os.Getenv("GOSMX_TRACE") != "" {
				fmt.Fprintln(os.Stderr, "solver error:", r)
			}
			continue
		}
		if strings.HasPrefix(t, "@@") {
			continue // a stale marker
		}
		answers = append(answers, r)
	}
}

// check decides stack ∧ extra. Returns "sat", "unsat" or "unknown".
func (s *solver) check(extra string, vars []string) (string, map[string]string) {
	t0 := time.Now()
	s.Queries++
	defer func() { s.Dur += time.Since(t0) }()
	s.restarted = false
	s.raw("(push)")
	if extra != "" {
		s.raw("(assert " + extra + ")")
	}
	s.raw("(check-sat)")
	ans, bad := s.roundTrip()
	r := "unknown"
	if !bad && len(ans) == 1 {
		r = strings.TrimSpace(ans[0])
	}
	var model map[string]string
	if !bad && r == "sat" && len(vars) > 0 {
		s.raw("(get-value (" + strings.Join(vars, " ") + "))")
		var ma []string
		ma, bad = s.roundTrip()
		if !bad && len(ma) == 1 {
			model = parseModel(ma[0])
		}
		if len(model) == 0 {
			// a "sat" without a model cannot be replayed: let the portfolio decide
			r = "unknown"
		}
	}
	if bad || len(ans) != 1 {
		if !s.restarted {
			s.restart()
		}
		r = "unknown"
	} else {
		s.raw("(pop)")
	}
	if r == "sat" || r == "unsat" {
		if s.kind == "cvc5" {
			s.BySolver["cvc5-incremental"]++
			s.lastBy = "cvc5-incremental"
		} else {
			s.BySolver["z3-5.1"]++
			s.lastBy = "z3-5.1"
		}
		return r, model
	}
	// fall back
	s.Fallbacks++
	r, model = s.fallback(extra, vars)
	if r != "sat" && r != "unsat" {
		s.Unknowns++
		return "unknown", nil
	}
	return r, model
}

func (s *solver) writeQuery(extra string, vars []string) string {
	var b strings.Builder
	b.WriteString("(set-logic ALL)\n(set-option :produce-models true)\n")
	for _, d := range s.decls {
		b.WriteString(d + "\n")
	}
	for _, a := range s.stack {
		b.WriteString("(assert " + a + ")\n")
	}
	if extra != "" {
		b.WriteString("(assert " + extra + ")\n")
	}
	b.WriteString("(check-sat)\n")
	if len(vars) > 0 {
		b.WriteString("(get-value (" + strings.Join(vars, " ") + "))\n")
	}
	f := filepath.Join(s.workDir, fmt.Sprintf("q_%d_%d.smt2", os.Getpid(), s.id))
	os.WriteFile(f, []byte(b.String()), 0644)
	return f
}

var FallbackTimeout = 60

func (s *solver) fallback(extra string, vars []string) (string, map[string]string) {
	f := s.writeQuery(extra, vars)
	defer os.Remove(f)
	if d := os.Getenv("GOSMX_KEEP_UNKNOWN"); d != "" {
		b, _ := os.ReadFile(f)
		os.MkdirAll(d, 0755)
		os.WriteFile(filepath.Join(d, fmt.Sprintf("fb_%d_%d_%d.smt2", os.Getpid(), s.id, s.Fallbacks)), b, 0644)
	}
	type ans struct {
		name, res string
		model     map[string]string
	}
	ctx, cancel := context.WithTimeout(context.Background(), time.Duration(FallbackTimeout)*time.Second)
	defer cancel()
	ch := make(chan ans, 3)
	try := func(name string, args ...string) {
		// the solvers carry their own hard time limit (a solver orphaned by a
		// killed run must not live on); exec'd directly so that cancelling
		// the context kills the solver itself
		out, _ := exec.CommandContext(ctx, "sh", "-c", "ulimit -v 8000000; exec "+strings.Join(args, " ")).CombinedOutput()
		txt := strings.TrimSpace(string(out))
		first := txt
		rest := ""
		if k := strings.IndexByte(txt, '\n'); k >= 0 {
			first, rest = txt[:k], txt[k+1:]
		}
		if first == "unsat" {
			ch <- ans{name, "unsat", nil}
			return
		}
		if first == "sat" && !strings.Contains(rest, "(error") {
			m := parseModel(rest)
			if len(vars) == 0 || len(m) > 0 {
				ch <- ans{name, "sat", m}
				return
			}
		}
		ch <- ans{name, "unknown", nil}
	}
	n := 3
	hardS := fmt.Sprintf("-T:%d", FallbackTimeout+5)
	hardMs := fmt.Sprintf("--tlimit=%d", (FallbackTimeout+5)*1000)
	if s.kind == "cvc5" {
		n = 3
		go try("z3-5.1-oneshot", "z3-new", hardS, f)
		go try("cvc5-strings", "cvc5", hardMs, "--strings-exp", "--produce-models", f)
		go try("z3-4.8", "z3", hardS, f)
	} else {
		go try("cvc5-bv-as-int", "cvc5", hardMs, "--solve-bv-as-int=sum", "--produce-models", f)
		go try("cvc5", "cvc5", hardMs, "--produce-models", f)
		go try("z3-4.8", "z3", hardS, f)
	}
	for k := 0; k < n; k++ {
		a := <-ch
		if a.res != "unknown" {
			s.BySolver[a.name]++
			s.lastBy = a.name
			cancel()
			return a.res, a.model
		}
	}
	return "unknown", nil
}

// parseModel parses ((|a| #x00..) (|b| true) ...) into a map.
func parseModel(s string) map[string]string {
	m := map[string]string{}
	s = strings.TrimSpace(s)
	// tokenise
	var toks []string
	for k := 0; k < len(s); {
		c := s[k]
		switch {
		case c == '(' || c == ')':
			toks = append(toks, string(c))
			k++
		case c == ' ' || c == '\n' || c == '\t' || c == '\r':
			k++
		case c == '|':
			j := strings.IndexByte(s[k+1:], '|')
			toks = append(toks, s[k:k+j+2])
			k += j + 2
		default:
			j := k
			for j < len(s) && !strings.ContainsRune("() \n\t\r", rune(s[j])) {
				j++
			}
			toks = append(toks, s[k:j])
			k = j
		}
	}
	// pairs at depth 2: ( name value-sexp )
	depth := 0
	for k := 0; k < len(toks); k++ {
		switch toks[k] {
		case "(":
			depth++
			if depth == 2 && k+2 < len(toks) {
				name := toks[k+1]
				// value may be an atom or (_ bvN w) / (- n)
				if toks[k+2] == "(" {
					j := k + 2
					d := 0
					var parts []string
					for ; j < len(toks); j++ {
						if toks[j] == "(" {
							d++
						} else if toks[j] == ")" {
							d--
						}
						parts = append(parts, toks[j])
						if d == 0 {
							break
						}
					}
					m[name] = strings.Join(parts, " ")
				} else {
					m[name] = toks[k+2]
				}
			}
		case ")":
			depth--
		}
	}
	return m
}

// modelInt converts a model value to int64 (bit-vector or Bool).
func modelInt(v string) (int64, bool) {
	v = strings.TrimSpace(v)
	switch {
	case v == "true":
		return 1, true
	case v == "false":
		return 0, true
	case strings.HasPrefix(v, "#x"):
		var u uint64
		_, err := fmt.Sscanf(v[2:], "%x", &u)
		if err != nil {
			return 0, false
		}
		w := (len(v) - 2) * 4
		return signExt(u, w), true
	case strings.HasPrefix(v, "#b"):
		var u uint64
		for _, c := range v[2:] {
			u = u<<1 | uint64(c-'0')
		}
		return signExt(u, len(v)-2), true
	case strings.HasPrefix(v, "( _ bv"):
		var u uint64
		var w int
		_, err := fmt.Sscanf(v, "( _ bv%d %d )", &u, &w)
		if err != nil {
			return 0, false
		}
		return signExt(u, w), true
	}
	return 0, false
}

func signExt(u uint64, w int) int64 {
	if w >= 64 || w <= 0 {
		return int64(u)
	}
	if u&(1<<uint(w-1)) != 0 {
		return int64(u | ^uint64(0)<<uint(w))
	}
	return int64(u)
}
