package sx

// Insertion-ordered map used for every Go map of the interpreted program.
// Iteration order is insertion order, so that re-execution of a path is
// deterministic (Go randomises map iteration; programs must not depend on it).

import (
	"fmt"
	"go/types"
)

type hashable interface {
	hash(t types.Type) int
	eq(t types.Type, x interface{}) bool
}

type mentry struct {
	key, val value
	dead     bool
}

type omap struct {
	keyType types.Type
	fast    map[value]*mentry // when usesBuiltinMap(keyType)
	ents    []*mentry
	n       int
}

func makeMap(kt types.Type, reserve int64) value {
	m := &omap{keyType: kt}
	if usesBuiltinMap(kt) {
		m.fast = map[value]*mentry{}
	}
	return m
}

func checkKey(k value) {
	switch k.(type) {
	case symv:
		panic(engineError{"symbolic map key (not supported; case-split in the harness)"})
	case *sstr:
		panic(engineError{"structural symbolic string used as map key"})
	case symstr:
		panic(engineError{"symbolic string used as map key"})
	}
	if f, ok := k.(iface); ok {
		checkKey(f.v)
	}
}

func (m *omap) find(k value) *mentry {
	if m == nil {
		return nil
	}
	checkKey(k)
	if m.fast != nil {
		return m.fast[k]
	}
	for _, e := range m.ents {
		if !e.dead && equals(m.keyType, e.key, k) {
			return e
		}
	}
	return nil
}

func (m *omap) lookup(k value) (value, bool) {
	if e := m.find(k); e != nil {
		return e.val, true
	}
	return nil, false
}

func (m *omap) insert(k, v value) {
	if m == nil {
		panic(runtimePanic{"assignment to entry in nil map"})
	}
	if e := m.find(k); e != nil {
		e.val = v
		return
	}
	e := &mentry{key: k, val: v}
	m.ents = append(m.ents, e)
	if m.fast != nil {
		m.fast[k] = e
	}
	m.n++
}

func (m *omap) delete(k value) {
	if m == nil {
		return
	}
	if e := m.find(k); e != nil {
		e.dead = true
		if m.fast != nil {
			delete(m.fast, k)
		}
		m.n--
	}
}

func (m *omap) len() int {
	if m == nil {
		return 0
	}
	return m.n
}

type omapIter struct {
	m *omap
	i int
}

func (it *omapIter) next() tuple {
	if it.m != nil {
		for it.i < len(it.m.ents) {
			e := it.m.ents[it.i]
			it.i++
			if !e.dead {
				return tuple{true, e.key, e.val}
			}
		}
	}
	return tuple{false, nil, nil}
}

var _ = fmt.Sprint
