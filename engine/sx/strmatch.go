package sx

// Deterministic symbolic matcher for anchored regular expressions of the shape
//   fixed/optional-literal pieces ... at most one variable-length piece ... fixed pieces
// (e.g. ^/?(.*/)?(ac/|cas/)([a-f0-9]{64})$). Alternations of literals and
// optional pieces are decided by forking on regex-membership conditions of
// the whole string (leftmost-first: an earlier alternative / taking a greedy
// optional is preferred whenever the rest can still match), fixed-length
// pieces become substr terms, and the single variable-length piece is what
// remains. Every condition is a membership of one term, which the string
// solvers decide quickly.

import (
	"fmt"
	"regexp/syntax"
	"strings"
)

// fixedLen returns the length of every string matched by re, if it is fixed.
func fixedLen(re *syntax.Regexp) (int, bool) {
	switch re.Op {
	case syntax.OpEmptyMatch, syntax.OpBeginText, syntax.OpEndText:
		return 0, true
	case syntax.OpLiteral:
		return len(string(re.Rune)), true
	case syntax.OpCharClass, syntax.OpAnyChar, syntax.OpAnyCharNotNL:
		return 1, true
	case syntax.OpCapture:
		return fixedLen(re.Sub[0])
	case syntax.OpConcat:
		n := 0
		for _, s := range re.Sub {
			k, ok := fixedLen(s)
			if !ok {
				return 0, false
			}
			n += k
		}
		return n, true
	case syntax.OpRepeat:
		if re.Min == re.Max {
			k, ok := fixedLen(re.Sub[0])
			return k * re.Min, ok
		}
	case syntax.OpAlternate:
		n := -1
		for _, s := range re.Sub {
			k, ok := fixedLen(s)
			if !ok || (n >= 0 && k != n) {
				return 0, false
			}
			n = k
		}
		return n, n >= 0
	}
	return 0, false
}

func concatRE(ps []string) string {
	switch len(ps) {
	case 0:
		return "(str.to_re \"\")"
	case 1:
		return ps[0]
	}
	return "(re.++ " + strings.Join(ps, " ") + ")"
}

// matchPieces tries the deterministic strategy; ok=false means the pattern
// does not have the supported shape.
func (i *interpreter) matchPieces(fr *frame, pattern string, pieces []*syntax.Regexp, ncap int, s symstr) (value, bool) {
	pm := i.pm
	type item struct {
		re   *syntax.Regexp
		cap  int // capture index (0 none)
		smt  string
		flen int
		fix  bool
	}
	// 1. resolve alternations and optionals by forking, left to right
	var items []item
	cur := append([]*syntax.Regexp{}, pieces...)
	langOf := func(rs []*syntax.Regexp) []string {
		var out []string
		for _, r := range rs {
			out = append(out, reToSMT(r))
		}
		return out
	}
	var prefixSMT []string // SMT regexes of the already resolved items
	for k := 0; k < len(cur); k++ {
		p := cur[k]
		capIdx := 0
		inner := p
		if p.Op == syntax.OpCapture {
			capIdx, inner = p.Cap, p.Sub[0]
		}
		tail := langOf(cur[k+1:])
		switch {
		case inner.Op == syntax.OpAlternate:
			// leftmost-first over the alternatives
			var conds []string
			var earlier []string
			for _, alt := range inner.Sub {
				lang := concatRE(append(append(append([]string{}, prefixSMT...), reToSMT(alt)), tail...))
				c := "(str.in_re " + s.t + " " + lang + ")"
				full := c
				if len(earlier) > 0 {
					full = "(and " + c + " " + strings.Join(earlier, " ") + ")"
				}
				conds = append(conds, full)
				earlier = append(earlier, "(not "+c+")")
			}
			conds = append(conds, "(and "+strings.Join(earlier, " ")+")")
			c := pm.branch(conds, true)
			if c == len(inner.Sub) {
				return []value(nil), true // no match
			}
			alt := inner.Sub[c]
			n, ok := fixedLen(alt)
			items = append(items, item{re: alt, cap: capIdx, smt: reToSMT(alt), flen: n, fix: ok})
			prefixSMT = append(prefixSMT, reToSMT(alt))
		case p.Op == syntax.OpQuest && p.Flags&syntax.NonGreedy == 0:
			x := p.Sub[0]
			xne := "(re.diff " + reToSMT(x) + " (str.to_re \"\"))"
			take := "(str.in_re " + s.t + " " + concatRE(append(append(append([]string{}, prefixSMT...), xne), tail...)) + ")"
			skip := "(and (not " + take + ") (str.in_re " + s.t + " " + concatRE(append(append([]string{}, prefixSMT...), tail...)) + "))"
			none := "(and (not " + take + ") (not (str.in_re " + s.t + " " + concatRE(append(append([]string{}, prefixSMT...), tail...)) + ")))"
			c := pm.branch([]string{take, skip, none}, true)
			switch c {
			case 2:
				return []value(nil), true
			case 1:
				// not taken: optional capture groups inside stay ""
			case 0:
				xc := 0
				xi := x
				if x.Op == syntax.OpCapture {
					xc, xi = x.Cap, x.Sub[0]
				}
				n, ok := fixedLen(xi)
				items = append(items, item{re: xi, cap: xc, smt: "(re.diff " + reToSMT(xi) + " (str.to_re \"\"))", flen: n, fix: ok})
				prefixSMT = append(prefixSMT, xne)
			}
		default:
			n, ok := fixedLen(inner)
			items = append(items, item{re: inner, cap: capIdx, smt: reToSMT(inner), flen: n, fix: ok})
			prefixSMT = append(prefixSMT, reToSMT(inner))
		}
	}
	// 2. at most one variable-length item
	vars := 0
	for _, it := range items {
		if !it.fix {
			vars++
		}
		if containsCapture(it.re) && it.re.Op != syntax.OpCapture {
			// nested captures inside an item are not tracked
			if it.cap == 0 || containsCapture(it.re) {
				if hasInnerCapture(it.re) {
					return nil, false
				}
			}
		}
	}
	if vars > 1 {
		return nil, false
	}
	// the whole string must match the resolved shape
	whole := "(str.in_re " + s.t + " " + concatRE(prefixSMT) + ")"
	c := pm.branch([]string{whole, "(not " + whole + ")"}, true)
	if c == 1 {
		return []value(nil), true
	}
	// 3. positions
	groups := make([]value, ncap+1)
	groups[0] = s
	for k := 1; k <= ncap; k++ {
		groups[k] = ""
	}
	slen := "(str.len " + s.t + ")"
	left := 0
	vi := -1
	for k, it := range items {
		if !it.fix {
			vi = k
			break
		}
		if it.cap > 0 {
			groups[it.cap] = symstr{fmt.Sprintf("(str.substr %s %d %d)", s.t, left, it.flen)}
		}
		left += it.flen
	}
	if vi >= 0 {
		right := 0
		for k := len(items) - 1; k > vi; k-- {
			it := items[k]
			right += it.flen
			if it.cap > 0 {
				groups[it.cap] = symstr{fmt.Sprintf("(str.substr %s (- %s %d) %d)", s.t, slen, right, it.flen)}
			}
		}
		if items[vi].cap > 0 {
			groups[items[vi].cap] = symstr{fmt.Sprintf("(str.substr %s %d (- %s %d))", s.t, left, slen, left+right)}
		}
	}
	return groups, true
}

func hasInnerCapture(re *syntax.Regexp) bool {
	for _, s := range re.Sub {
		if containsCapture(s) {
			return true
		}
	}
	return false
}
