package sx

// encoding/binary.Read / Write over interpreter values (fixed-width integers,
// named integer types, slices of them), little or big endian. The standard
// library takes its reflection path for named types, which the interpreter
// cannot execute; this model encodes by the dynamic type of the argument.

import (
	"fmt"
	"go/token"
	"go/types"
	"strings"
)

func intSizeOf(t types.Type) (int, types.BasicKind, bool) {
	b, ok := t.Underlying().(*types.Basic)
	if !ok {
		return 0, 0, false
	}
	switch b.Kind() {
	case types.Int8, types.Uint8, types.Bool:
		return 1, b.Kind(), true
	case types.Int16, types.Uint16:
		return 2, b.Kind(), true
	case types.Int32, types.Uint32:
		return 4, b.Kind(), true
	case types.Int64, types.Uint64:
		return 8, b.Kind(), true
	}
	return 0, 0, false
}

func isBigEndian(order value) bool {
	f := order.(iface)
	return f.t != nil && strings.Contains(f.t.String(), "bigEndian")
}

func decodeInt(bs []value, k types.BasicKind, big bool) value {
	n := len(bs)
	allConc := true
	for _, b := range bs {
		if _, ok := b.(symv); ok {
			allConc = false
		}
	}
	if allConc {
		var u uint64
		for j := 0; j < n; j++ {
			idx := j
			if big {
				idx = n - 1 - j
			}
			u |= uint64(asInt64(bs[idx])&0xff) << (8 * uint(j))
		}
		if k == types.Bool {
			return u != 0
		}
		return concreteOfKind(signExt(u, 8*n), k)
	}
	// concat most significant first
	var parts []string
	for j := n - 1; j >= 0; j-- {
		idx := j
		if big {
			idx = n - 1 - j
		}
		parts = append(parts, term(bs[idx], types.Uint8))
	}
	if n == 1 {
		return symv{parts[0], k}
	}
	return symv{"(concat " + strings.Join(parts, " ") + ")", k}
}

func encodeInt(v value, n int, big bool) []value {
	out := make([]value, n)
	if s, ok := v.(symv); ok {
		for j := 0; j < n; j++ {
			idx := j
			if big {
				idx = n - 1 - j
			}
			if n == 1 {
				out[idx] = symv{s.t, types.Uint8}
			} else {
				out[idx] = symv{fmt.Sprintf("((_ extract %d %d) %s)", 8*j+7, 8*j, s.t), types.Uint8}
			}
		}
		return out
	}
	var u uint64
	if b, ok := v.(bool); ok {
		if b {
			u = 1
		}
	} else {
		u = uint64(asInt64(v))
	}
	for j := 0; j < n; j++ {
		idx := j
		if big {
			idx = n - 1 - j
		}
		out[idx] = uint8(u >> (8 * uint(j)))
	}
	return out
}

func nativeBinaryRead(fr *frame, a []value) value {
	i := fr.i
	r, order, data := a[0], a[1], a[2].(iface)
	big := isBigEndian(order)
	iop := i.prog.ImportedPackage("io")
	if iop == nil {
		panic(engineError{"package io not loaded"})
	}
	readFull := iop.Func("ReadFull")
	read := func(n int) ([]value, value) {
		buf := make([]value, n)
		for k := range buf {
			buf[k] = uint8(0)
		}
		res := call(i, fr, fr.callpos, readFull, []value{r, buf}).(tuple)
		return buf, res[1]
	}
	if data.t == nil {
		panic(runtimePanic{"binary.Read: nil data"})
	}
	switch t := data.t.Underlying().(type) {
	case *types.Pointer:
		n, k, ok := intSizeOf(t.Elem())
		if !ok {
			break
		}
		buf, err := read(n)
		if err.(iface).t != nil {
			return err
		}
		p := data.v.(*value)
		*p = decodeInt(buf, k, big)
		i.writeClock++
		return iface{}
	case *types.Slice:
		n, k, ok := intSizeOf(t.Elem())
		if !ok {
			break
		}
		s, isConc := data.v.([]value)
		if !isConc {
			panic(engineError{"binary.Read into symbolic-length slice"})
		}
		buf, err := read(n * len(s))
		if err.(iface).t != nil {
			return err
		}
		for j := range s {
			s[j] = decodeInt(buf[j*n:(j+1)*n], k, big)
		}
		i.writeClock++
		return iface{}
	}
	panic(engineError{"binary.Read: unsupported data type " + data.t.String()})
}

func nativeBinaryWrite(fr *frame, a []value) value {
	i := fr.i
	w, order, data := a[0].(iface), a[1], a[2].(iface)
	big := isBigEndian(order)
	var buf []value
	if data.t == nil {
		panic(runtimePanic{"binary.Write: nil data"})
	}
	if n, _, ok := intSizeOf(data.t); ok {
		buf = encodeInt(data.v, n, big)
	} else if st, ok := data.t.Underlying().(*types.Slice); ok {
		n, _, ok := intSizeOf(st.Elem())
		if !ok {
			panic(engineError{"binary.Write: unsupported slice type " + data.t.String()})
		}
		s, isConc := data.v.([]value)
		if !isConc {
			panic(engineError{"binary.Write of symbolic-length slice"})
		}
		for _, e := range s {
			buf = append(buf, encodeInt(e, n, big)...)
		}
	} else if pt, ok := data.t.Underlying().(*types.Pointer); ok {
		n, _, ok := intSizeOf(pt.Elem())
		if !ok {
			panic(engineError{"binary.Write: unsupported pointer type " + data.t.String()})
		}
		buf = encodeInt(*(data.v.(*value)), n, big)
	} else {
		panic(engineError{"binary.Write: unsupported data type " + data.t.String()})
	}
	if w.t == nil {
		panic(runtimePanic{"binary.Write: nil writer"})
	}
	m := i.findMethod(w.t, "Write")
	if m == nil {
		panic(engineError{"binary.Write: writer without Write"})
	}
	res := call(i, fr, fr.callpos, m, []value{w.v, buf}).(tuple)
	return res[1]
}

func init() {
	natives["encoding/binary.Read"] = nativeBinaryRead
	natives["encoding/binary.Write"] = nativeBinaryWrite
	_ = token.NoPos
}
