package sx

import (
	"go/token"
	"go/types"
	"strings"
)

func containsSym(v value) bool {
	switch x := v.(type) {
	case symv, *sstr, symstr:
		return true
	case structure:
		for _, e := range x {
			if containsSym(e) {
				return true
			}
		}
	case array:
		for _, e := range x {
			if containsSym(e) {
				return true
			}
		}
	case iface:
		return containsSym(x.v)
	case tuple:
		for _, e := range x {
			if containsSym(e) {
				return true
			}
		}
	}
	return false
}

func (i *interpreter) eqOp(fr *frame, op token.Token, t types.Type, x, y value) value {
	var r value
	if !containsSym(x) && !containsSym(y) {
		r = eqnil(t, x, y)
	} else {
		r = symEq(t, x, y)
	}
	if op == token.NEQ {
		return notVal(r)
	}
	return r
}

func andVals(vs []value) value {
	var terms []string
	for _, v := range vs {
		switch b := v.(type) {
		case bool:
			if !b {
				return false
			}
		case symv:
			terms = append(terms, b.t)
		}
	}
	switch len(terms) {
	case 0:
		return true
	case 1:
		return symv{terms[0], types.Bool}
	}
	return symv{"(and " + strings.Join(terms, " ") + ")", types.Bool}
}

// symEq is Go's == on values that may contain symbolic scalars.
func symEq(t types.Type, x, y value) value {
	if !containsSym(x) && !containsSym(y) {
		return eqnil(t, x, y)
	}
	switch ut := t.Underlying().(type) {
	case *types.Basic:
		if ut.Info()&types.IsString != 0 {
			if isSymStr(x) || isSymStr(y) {
				return strBinop(token.EQL, x, y)
			}
			return eqStr(x, y)
		}
		if r, ok := intCompare(token.EQL, x, y); ok {
			return r
		}
		return symBinop(token.EQL, t, x, y)
	case *types.Struct:
		xs, ys := x.(structure), y.(structure)
		var parts []value
		for k := 0; k < ut.NumFields(); k++ {
			if ut.Field(k).Name() == "_" {
				continue
			}
			parts = append(parts, symEq(ut.Field(k).Type(), xs[k], ys[k]))
		}
		return andVals(parts)
	case *types.Array:
		xs, ys := x.(array), y.(array)
		var parts []value
		for k := range xs {
			parts = append(parts, symEq(ut.Elem(), xs[k], ys[k]))
		}
		return andVals(parts)
	case *types.Interface:
		xi, yi := x.(iface), y.(iface)
		if !sameType(xi.t, yi.t) {
			return false
		}
		if xi.t == nil {
			return true
		}
		return symEq(xi.t, xi.v, yi.v)
	}
	panic(engineError{"symEq on " + t.String()})
}
