package sx

// String-backed byte slices and an injective hash over them (string mode):
// []byte(s) of a symbolic string s, sha256 of such bytes as an opaque digest,
// hex.EncodeToString(digest) as a fresh 64-hex string T with, for every pair
// of digests on the path, (content_i = content_j) <=> (T_i = T_j)
// (sha256 assumed injective).

import (
	"fmt"
)

// strbytes is the value of []byte(s) for a symbolic string s.
type strbytes struct{ s value } // string or symstr

// digestbytes is the sha256 digest of the bytes of a string.
type digestbytes struct{ content value } // string or symstr

type digestRec struct {
	content string // SMT term
	t       string // SMT variable of the hex text
}

const hex64RE = "((_ re.loop 64 64) (re.union (re.range \"0\" \"9\") (re.range \"a\" \"f\")))"

func (i *interpreter) hexOfDigest(d *digestbytes) value {
	pm := i.pm
	if pm.concrete != nil {
		// concrete replay: the digest text the solver chose for this content
		c := d.content.(string)
		recs, _ := i.host["digests"].(map[string]string)
		if recs == nil {
			recs = map[string]string{}
			i.host["digests"] = recs
		}
		if t, ok := recs[c]; ok {
			return t
		}
		t := fmt.Sprintf("%064x", len(recs)+0x5a5a)
		if v, ok := pm.concrete.SVars[pm.uniqueName("sha256hex")]; ok && len(v) == 64 {
			t = v
		}
		recs[c] = t
		return t
	}
	ct := strTerm(d.content)
	recs, _ := i.host["digestRecs"].([]digestRec)
	for _, r := range recs {
		if r.content == ct {
			return symstr{r.t}
		}
	}
	inputs := pm.inputStrs
	tv := pm.freshStrKind("sha256hex", false).(symstr)
	pm.digestStrs = append(pm.digestStrs, tv.t)
	pm.addPC("(str.in_re " + tv.t + " " + hex64RE + ")")
	// assumption: no client-supplied string equals a digest computed by the
	// server (clients name actions by digests of Action messages, not of key||instance)
	for _, in := range inputs {
		pm.addPC("(not (= " + tv.t + " " + in + "))")
	}
	for _, r := range recs {
		pm.addPC("(= (= " + ct + " " + r.content + ") (= " + tv.t + " " + r.t + "))")
	}
	i.host["digestRecs"] = append(recs, digestRec{ct, tv.t})
	return tv
}

func init() {
	vsymFns["AsString"] = func(fr *frame, a []value) value {
		if sb, ok := a[0].(*strbytes); ok {
			return tuple{sb.s, true}
		}
		if xs, ok := a[0].([]value); ok {
			b := make([]byte, len(xs))
			for k, e := range xs {
				c, ok := e.(uint8)
				if !ok {
					return tuple{"", false}
				}
				b[k] = c
			}
			return tuple{string(b), true}
		}
		return tuple{"", false}
	}
	vsymFns["DigestOf"] = func(fr *frame, a []value) value {
		return &digestbytes{a[0]}
	}
	prevHex := natives["encoding/hex.EncodeToString"]
	natives["encoding/hex.EncodeToString"] = func(fr *frame, a []value) value {
		if d, ok := a[0].(*digestbytes); ok {
			return fr.i.hexOfDigest(d)
		}
		return prevHex(fr, a)
	}
}
