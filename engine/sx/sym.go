package sx

import (
	"fmt"
	"go/token"
	"go/types"

	"golang.org/x/tools/go/ssa"
)

// symv is a symbolic scalar: SMT-LIB term + Go basic kind.
type symv struct {
	t string
	k types.BasicKind
}

func isSym(x value) bool { _, ok := x.(symv); return ok }

func mustDeref(t types.Type) types.Type {
	if p, ok := t.Underlying().(*types.Pointer); ok {
		return p.Elem()
	}
	panic("mustDeref: not a pointer: " + t.String())
}

func kindOf(t types.Type) types.BasicKind {
	b, ok := t.Underlying().(*types.Basic)
	if !ok {
		panic("kindOf: not basic: " + t.String())
	}
	switch b.Kind() {
	case types.UntypedInt:
		return types.Int
	case types.UntypedBool:
		return types.Bool
	}
	return b.Kind()
}

func width(k types.BasicKind) int {
	switch k {
	case types.Int8, types.Uint8:
		return 8
	case types.Int16, types.Uint16:
		return 16
	case types.Int32, types.Uint32:
		return 32
	case types.Int, types.Uint, types.Int64, types.Uint64, types.Uintptr:
		return 64
	case types.Bool:
		return 0
	}
	panic(fmt.Sprintf("width: kind %v", k))
}

func signed(k types.BasicKind) bool {
	switch k {
	case types.Int, types.Int8, types.Int16, types.Int32, types.Int64:
		return true
	}
	return false
}

func lit(v uint64, w int) string {
	if w == 64 {
		return fmt.Sprintf("#x%016x", v)
	}
	return fmt.Sprintf("(_ bv%d %d)", v&((1<<uint(w))-1), w)
}

// term returns the SMT term of x interpreted at kind k.
func term(x value, k types.BasicKind) string {
	switch x := x.(type) {
	case symv:
		return x.t
	case bool:
		if x {
			return "true"
		}
		return "false"
	}
	w := width(k)
	return lit(uint64(asInt64(x)), w)
}

func symBinop(op token.Token, t types.Type, x, y value) value {
	k := kindOf(t)
	if k == types.Bool {
		a, b := term(x, k), term(y, k)
		switch op {
		case token.EQL:
			return symv{"(= " + a + " " + b + ")", types.Bool}
		case token.NEQ:
			return symv{"(not (= " + a + " " + b + "))", types.Bool}
		}
		panic("bool binop " + op.String())
	}
	w := width(k)
	a := term(x, k)
	var b string
	if op == token.SHL || op == token.SHR {
		// shift count may have a different type/width
		switch yv := y.(type) {
		case symv:
			yw := width(yv.k)
			b = yv.t
			if yw < w {
				b = fmt.Sprintf("((_ zero_extend %d) %s)", w-yw, b)
			} else if yw > w {
				panic("shift count wider than operand")
			}
		default:
			b = lit(asUint64(widenU(y)), w)
		}
	} else {
		b = term(y, k)
	}
	sg := signed(k)
	bin := func(f string) value { return symv{"(" + f + " " + a + " " + b + ")", k} }
	cmp := func(f string) value { return symv{"(" + f + " " + a + " " + b + ")", types.Bool} }
	switch op {
	case token.ADD:
		return bin("bvadd")
	case token.SUB:
		return bin("bvsub")
	case token.MUL:
		return bin("bvmul")
	case token.QUO:
		if sg {
			return bin("bvsdiv")
		}
		return bin("bvudiv")
	case token.REM:
		if sg {
			return bin("bvsrem")
		}
		return bin("bvurem")
	case token.AND:
		return bin("bvand")
	case token.OR:
		return bin("bvor")
	case token.XOR:
		return bin("bvxor")
	case token.AND_NOT:
		return symv{"(bvand " + a + " (bvnot " + b + "))", k}
	case token.SHL:
		return bin("bvshl")
	case token.SHR:
		if sg {
			return bin("bvashr")
		}
		return bin("bvlshr")
	case token.EQL:
		return cmp("=")
	case token.NEQ:
		return symv{"(not (= " + a + " " + b + "))", types.Bool}
	case token.LSS:
		if sg {
			return cmp("bvslt")
		}
		return cmp("bvult")
	case token.LEQ:
		if sg {
			return cmp("bvsle")
		}
		return cmp("bvule")
	case token.GTR:
		if sg {
			return cmp("bvsgt")
		}
		return cmp("bvugt")
	case token.GEQ:
		if sg {
			return cmp("bvsge")
		}
		return cmp("bvuge")
	}
	panic("symBinop: " + op.String())
}

func widenU(y value) value {
	switch y := y.(type) {
	case int:
		return uint64(y)
	case int64:
		return uint64(y)
	case int32:
		return uint64(y)
	}
	return y
}

func symUnop(instr *ssa.UnOp, x value) value {
	s := x.(symv)
	switch instr.Op {
	case token.SUB:
		return symv{"(bvneg " + s.t + ")", s.k}
	case token.NOT:
		return symv{"(not " + s.t + ")", types.Bool}
	case token.XOR:
		return symv{"(bvnot " + s.t + ")", s.k}
	}
	panic("symUnop " + instr.Op.String())
}

func symConv(dst, src types.Type, x value) value {
	s := x.(symv)
	db, ok := dst.Underlying().(*types.Basic)
	if !ok {
		panic("symConv to " + dst.String())
	}
	if db.Info()&types.IsFloat != 0 {
		return float64(0) // opaque: floats only feed metrics
	}
	dk := kindOf(dst)
	sw, dw := width(s.k), width(dk)
	switch {
	case dw == sw:
		return symv{s.t, dk}
	case dw < sw:
		return symv{fmt.Sprintf("((_ extract %d 0) %s)", dw-1, s.t), dk}
	default:
		if signed(s.k) {
			return symv{fmt.Sprintf("((_ sign_extend %d) %s)", dw-sw, s.t), dk}
		}
		return symv{fmt.Sprintf("((_ zero_extend %d) %s)", dw-sw, s.t), dk}
	}
}

