package sx

// Structural strings: a Go string value that contains the decimal text of
// symbolic integers (file names with a symbolic size, error texts).
// An sstr is a sequence of literal parts and "decimal text of term t" parts.

import (
	"fmt"
	"go/token"
	"go/types"
	"strconv"
	"strings"
)

type spart struct {
	lit string
	sym *symv // decimal text of this (signed 64-bit) term when non-nil
	opq string // opaque text with identity opq (e.g. %v of a symbolic struct) when non-empty
}

type sstr struct{ parts []spart }

func lift(s string) *sstr {
	if s == "" {
		return &sstr{}
	}
	return &sstr{[]spart{{lit: s}}}
}

func asSstr(v value) *sstr {
	switch x := v.(type) {
	case string:
		return lift(x)
	case *sstr:
		return x
	}
	panic(engineError{fmt.Sprintf("asSstr: %T", v)})
}

func (s *sstr) norm() value {
	var out []spart
	for _, p := range s.parts {
		if p.sym == nil && p.opq == "" {
			if p.lit == "" {
				continue
			}
			if n := len(out); n > 0 && out[n-1].sym == nil && out[n-1].opq == "" {
				out[n-1].lit += p.lit
				continue
			}
		}
		out = append(out, p)
	}
	if len(out) == 0 {
		return ""
	}
	if len(out) == 1 && out[0].sym == nil && out[0].opq == "" {
		return out[0].lit
	}
	return &sstr{out}
}

func (s *sstr) String() string {
	var b strings.Builder
	for _, p := range s.parts {
		switch {
		case p.sym != nil:
			b.WriteString("{" + p.sym.t + "}")
		case p.opq != "":
			b.WriteString("{?" + p.opq + "}")
		default:
			b.WriteString(p.lit)
		}
	}
	return b.String()
}

func concatStr(a, b value) value {
	if isSymStr(a) || isSymStr(b) {
		if sa, ok := a.(string); ok && sa == "" {
			return b
		}
		if sb, ok := b.(string); ok && sb == "" {
			return a
		}
		if _, ok := a.(*sstr); ok {
			panic(engineError{"concatenation of a structural string with a symbolic string"})
		}
		if _, ok := b.(*sstr); ok {
			panic(engineError{"concatenation of a structural string with a symbolic string"})
		}
		return strBinop(token.ADD, a, b)
	}
	x, y := asSstr(a), asSstr(b)
	return (&sstr{append(append([]spart{}, x.parts...), y.parts...)}).norm()
}

func isDigit(c byte) bool { return c >= '0' && c <= '9' }

// wellSeparated: every literal that follows a decimal part starts with a non-digit.
func (s *sstr) wellSeparated() bool {
	for k, p := range s.parts {
		if p.sym != nil || p.opq != "" {
			if k+1 < len(s.parts) {
				n := s.parts[k+1]
				if n.sym != nil || n.opq != "" || n.lit == "" || isDigit(n.lit[0]) {
					return false
				}
			}
		}
	}
	return true
}

// eqStr returns the (possibly symbolic) truth value of a == b.
func eqStr(a, b value) value {
	as, aok := a.(string)
	bs, bok := b.(string)
	if aok && bok {
		return as == bs
	}
	x, y := asSstr(a), asSstr(b)
	if aok || bok {
		// literal against pattern
		pat, s := y, as
		if bok {
			pat, s = x, bs
		}
		return matchLiteral(pat, s)
	}
	if !x.wellSeparated() || !y.wellSeparated() {
		panic(engineError{"comparison of structural strings that are not well separated: " + x.String() + " / " + y.String()})
	}
	if len(x.parts) != len(y.parts) {
		return shapeMismatch(x, y)
	}
	var conj []string
	for k := range x.parts {
		p, q := x.parts[k], y.parts[k]
		switch {
		case p.sym != nil && q.sym != nil:
			if p.sym.t != q.sym.t {
				conj = append(conj, "(= "+intTerm(*p.sym)+" "+intTerm(*q.sym)+")")
			}
		case p.opq != "" && q.opq != "":
			if p.opq != q.opq {
				panic(engineError{"comparison of distinct opaque texts"})
			}
		case p.sym == nil && q.sym == nil && p.opq == "" && q.opq == "":
			if p.lit != q.lit {
				return shapeMismatch(x, y)
			}
		default:
			return shapeMismatch(x, y)
		}
	}
	if len(conj) == 0 {
		return true
	}
	if len(conj) == 1 {
		return symv{conj[0], types.Bool}
	}
	return symv{"(and " + strings.Join(conj, " ") + ")", types.Bool}
}

// shapeMismatch decides equality of two structural strings whose literal
// skeletons differ. If the first literal parts already disagree on a common
// prefix the strings are different; otherwise we cannot tell.
func shapeMismatch(x, y *sstr) value {
	if len(x.parts) > 0 && len(y.parts) > 0 {
		p, q := x.parts[0], y.parts[0]
		if p.sym == nil && q.sym == nil && p.opq == "" && q.opq == "" {
			n := len(p.lit)
			if len(q.lit) < n {
				n = len(q.lit)
			}
			if p.lit[:n] != q.lit[:n] {
				return false
			}
		}
		// compare literal suffixes
		p, q = x.parts[len(x.parts)-1], y.parts[len(y.parts)-1]
		if p.sym == nil && q.sym == nil && p.opq == "" && q.opq == "" {
			n := len(p.lit)
			if len(q.lit) < n {
				n = len(q.lit)
			}
			if p.lit[len(p.lit)-n:] != q.lit[len(q.lit)-n:] {
				return false
			}
		}
	}
	panic(engineError{"cannot decide equality of structural strings " + x.String() + " and " + y.String()})
}

func matchLiteral(pat *sstr, s string) value {
	if !pat.wellSeparated() {
		panic(engineError{"literal match against non-separated structural string"})
	}
	var conj []string
	pos := 0
	for _, p := range pat.parts {
		switch {
		case p.sym != nil:
			j := pos
			if j < len(s) && s[j] == '-' {
				j++
			}
			st := j
			for j < len(s) && isDigit(s[j]) {
				j++
			}
			if j == st {
				return false
			}
			txt := s[pos:j]
			n, err := strconv.ParseInt(txt, 10, 64)
			if err != nil || strconv.FormatInt(n, 10) != txt {
				return false
			}
			conj = append(conj, "(= "+intTerm(*p.sym)+" "+lit(uint64(n), 64)+")")
			pos = j
		case p.opq != "":
			panic(engineError{"literal match against opaque text"})
		default:
			if !strings.HasPrefix(s[pos:], p.lit) {
				return false
			}
			pos += len(p.lit)
		}
	}
	if pos != len(s) {
		return false
	}
	if len(conj) == 0 {
		return true
	}
	if len(conj) == 1 {
		return symv{conj[0], types.Bool}
	}
	return symv{"(and " + strings.Join(conj, " ") + ")", types.Bool}
}

func (s *sstr) binop(fr *frame, op token.Token, y value) value {
	switch op {
	case token.ADD:
		return concatStr(s, y)
	case token.EQL:
		return eqStr(s, y)
	case token.NEQ:
		return notVal(eqStr(s, y))
	}
	panic(engineError{"unsupported operator " + op.String() + " on structural string"})
}

func notVal(v value) value {
	switch x := v.(type) {
	case bool:
		return !x
	case symv:
		return symv{"(not " + x.t + ")", types.Bool}
	}
	panic(engineError{"notVal"})
}

func (s *sstr) firstLit() string {
	if len(s.parts) > 0 && s.parts[0].sym == nil && s.parts[0].opq == "" {
		return s.parts[0].lit
	}
	return ""
}

func (s *sstr) lastLit() string {
	if n := len(s.parts); n > 0 && s.parts[n-1].sym == nil && s.parts[n-1].opq == "" {
		return s.parts[n-1].lit
	}
	return ""
}

func (s *sstr) index(fr *frame, idx value, pos token.Pos) value {
	if j, ok := idx.(int); ok && j >= 0 && j < len(s.firstLit()) {
		return s.firstLit()[j]
	}
	panic(engineError{"index into structural string at " + fr.pos(pos)})
}

func (s *sstr) slice(fr *frame, lo, hi value, pos token.Pos) value {
	fl := s.firstLit()
	l := 0
	if lo != nil {
		l = int(concInt(lo, "string slice bound"))
	}
	if hi != nil {
		h := int(concInt(hi, "string slice bound"))
		if l >= 0 && l <= h && h <= len(fl) {
			return fl[l:h]
		}
	} else if l >= 0 && l <= len(fl) {
		parts := append([]spart{{lit: fl[l:]}}, s.parts[1:]...)
		return (&sstr{parts}).norm()
	}
	panic(engineError{"slice of structural string beyond its literal prefix at " + fr.pos(pos)})
}

func hasPrefixStr(s value, prefix string) value {
	switch x := s.(type) {
	case string:
		return strings.HasPrefix(x, prefix)
	case *sstr:
		fl := x.firstLit()
		if len(fl) >= len(prefix) {
			return strings.HasPrefix(fl, prefix)
		}
		if !strings.HasPrefix(prefix, fl) {
			return false
		}
	}
	panic(engineError{"HasPrefix on structural string undecidable"})
}

func hasSuffixStr(s value, suffix string) value {
	switch x := s.(type) {
	case string:
		return strings.HasSuffix(x, suffix)
	case *sstr:
		ll := x.lastLit()
		if len(ll) >= len(suffix) {
			return strings.HasSuffix(ll, suffix)
		}
		if !strings.HasSuffix(suffix, ll) {
			return false
		}
	}
	panic(engineError{"HasSuffix on structural string undecidable"})
}

// joinPath implements path.Join / filepath.Join on values, assuming the
// symbolic parts are clean path components (decimal numbers).
func joinPath(elems []value) value {
	allConc := true
	for _, e := range elems {
		if _, ok := e.(string); !ok {
			allConc = false
		}
	}
	if allConc {
		ss := make([]string, len(elems))
		for k, e := range elems {
			ss[k] = e.(string)
		}
		return pathJoinNative(ss)
	}
	var out value = ""
	first := true
	for _, e := range elems {
		if s, ok := e.(string); ok && s == "" {
			continue
		}
		if !first {
			out = concatStr(out, "/")
		}
		if s, ok := e.(string); ok {
			c := pathJoinNative([]string{s})
			if !first {
				c = strings.TrimPrefix(c, "/")
			}
			out = concatStr(out, c)
		} else {
			out = concatStr(out, e)
		}
		first = false
	}
	return out
}

// ---- formatting

// sprintf implements fmt.Sprintf over interpreter values. Symbolic integer
// arguments become decimal-text parts (for %d and %v) or opaque parts.
func (i *interpreter) sprintf(format string, args []value) value {
	var out value = ""
	argi := 0
	k := 0
	for k < len(format) {
		j := strings.IndexByte(format[k:], '%')
		if j < 0 {
			out = concatStr(out, format[k:])
			break
		}
		out = concatStr(out, format[k:k+j])
		k += j
		// parse verb
		e := k + 1
		for e < len(format) && strings.IndexByte("+-# 0123456789.", format[e]) >= 0 {
			e++
		}
		if e >= len(format) {
			out = concatStr(out, format[k:])
			break
		}
		verb := format[e]
		spec := format[k : e+1]
		k = e + 1
		if verb == '%' {
			out = concatStr(out, "%")
			continue
		}
		if argi >= len(args) {
			out = concatStr(out, "%!"+string(verb)+"(MISSING)")
			continue
		}
		a := args[argi]
		argi++
		out = concatStr(out, i.formatArg(spec, verb, a))
	}
	return out
}

func (i *interpreter) formatArg(spec string, verb byte, a value) value {
	if f, ok := a.(iface); ok {
		if f.t == nil {
			return "<nil>"
		}
		// error / Stringer
		if verb == 'v' || verb == 's' || verb == 'w' || verb == 'q' {
			if m := i.findMethod(f.t, "Error"); m != nil && verb != 'q' {
				return call(i, nil, token.NoPos, m, []value{f.v})
			}
			if m := i.findMethod(f.t, "String"); m != nil && verb != 'q' {
				return call(i, nil, token.NoPos, m, []value{f.v})
			}
		}
		a = f.v
	}
	switch x := a.(type) {
	case symv:
		if x.k != types.Bool && (verb == 'd' || verb == 'v') && spec == "%"+string(verb) {
			var t symv
			if signed(x.k) {
				t = toInt(x).(symv)
			} else if width(x.k) < 64 {
				t = toInt(x).(symv)
			} else {
				return (&sstr{[]spart{{opq: "u" + x.t}}}).norm()
			}
			return (&sstr{[]spart{{sym: &t}}}).norm()
		}
		return (&sstr{[]spart{{opq: spec + x.t}}}).norm()
	case *sstr:
		if verb == 's' || verb == 'v' {
			return x
		}
		return (&sstr{[]spart{{opq: spec + x.String()}}}).norm()
	case symstr:
		if (verb == 's' || verb == 'v') && spec == "%"+string(verb) {
			return x
		}
		if verb == 'q' {
			// quoting of arbitrary text: opaque but injective enough for messages
			return strBinop(token.ADD, strBinop(token.ADD, "\"", x), "\"")
		}
		panic(engineError{"formatting a symbolic string with " + spec})
	case bool, int, int8, int16, int32, int64, uint, uint8, uint16, uint32, uint64, uintptr, float32, float64, string:
		return fmt.Sprintf(spec, x)
	case []value:
		if verb == 's' || verb == 'q' || verb == 'x' {
			b := make([]byte, len(x))
			for k, e := range x {
				c, ok := e.(uint8)
				if !ok {
					return (&sstr{[]spart{{opq: "bytes"}}}).norm()
				}
				b[k] = c
			}
			return fmt.Sprintf(spec, b)
		}
	case *value:
		if x == nil {
			return "<nil>"
		}
		return fmt.Sprintf("%p", x)
	}
	if containsSym(a) {
		return (&sstr{[]spart{{opq: "val"}}}).norm()
	}
	return toString(a)
}

func (i *interpreter) findMethod(t types.Type, name string) value {
	ms := i.prog.MethodSets.MethodSet(t)
	for k := 0; k < ms.Len(); k++ {
		if ms.At(k).Obj().Name() == name {
			f := i.prog.MethodValue(ms.At(k))
			if f != nil {
				return f
			}
		}
	}
	return nil
}
