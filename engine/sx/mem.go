package sx

// Memory operations with symbolic indices / lengths, and the implicit
// run-time-error obligations (nil, bounds, division by zero).

import (
	"fmt"
	"go/token"
	"go/types"
	"strings"

	"golang.org/x/tools/go/ssa"
)

// symref is a pointer to element idx (symbolic) of a scalar slice/array.
type symref struct {
	elems []value
	idx   symv
	k     types.BasicKind
}

// symslice is a slice whose offset/length/capacity may be symbolic.
type symslice struct {
	obj       *bobj
	off, n, c value // Go int or symv of kind Int
	elem      types.Type
}

// bigArray is the value of a huge scalar array variable, kept sparse.
type bigArray struct {
	obj  *bobj
	n    int
	elem types.Type
}

// bobj is the backing object of a symslice.
type bobj struct {
	id      int
	backing []value       // non-nil: concrete capacity
	cells   map[int]value // sparse contents when capacity is symbolic
	elemK   types.BasicKind
	// provenance log (see prov.go)
	regions []region
	lost    bool
}

var tInt = types.Typ[types.Int]

func concInt(v value, what string) int64 {
	if _, ok := v.(symv); ok {
		panic(engineError{"symbolic " + what + " not supported here"})
	}
	return asInt64(v)
}

func intTerm(v value) string {
	if s, ok := v.(symv); ok {
		if width(s.k) != 64 {
			return symConv(tInt, types.Typ[s.k], s).(symv).t
		}
		return s.t
	}
	return lit(uint64(asInt64(v)), 64)
}

func toInt(v value) value { // normalise to Go int or symv(Int)
	switch x := v.(type) {
	case symv:
		if x.k == types.Int {
			return x
		}
		return conv(tInt, types.Typ[x.k], x)
	case int:
		return x
	}
	return int(asInt64(v))
}

func addInt(a, b value) value { return binop(token.ADD, tInt, toInt(a), toInt(b)) }
func subInt(a, b value) value { return binop(token.SUB, tInt, toInt(a), toInt(b)) }

// obligation: cond must hold, else the target panics with msg.
func (i *interpreter) require(fr *frame, cond value, msg string, pos token.Pos) {
	switch c := cond.(type) {
	case bool:
		if !c {
			panic(runtimePanic{msg + " at " + fr.pos(pos)})
		}
	case symv:
		i.pm.obligation(c, "panic: "+msg+" at "+fr.pos(pos))
	}
}

func (i *interpreter) inRange(fr *frame, idx, n value, msg string, pos token.Pos) {
	idx, n = toInt(idx), toInt(n)
	_, s1 := idx.(symv)
	_, s2 := n.(symv)
	if !s1 && !s2 {
		if x := idx.(int); x < 0 || x >= n.(int) {
			panic(runtimePanic{fmt.Sprintf("%s [%d] with length %d at %s", msg, x, n.(int), fr.pos(pos))})
		}
		return
	}
	// unsigned compare does both checks at once (n >= 0 always)
	c := symv{"(bvult " + intTerm(idx) + " " + intTerm(n) + ")", types.Bool}
	i.require(fr, c, msg, pos)
}

func (i *interpreter) loadPtr(fr *frame, instr *ssa.UnOp, x value) value {
	switch p := x.(type) {
	case *value:
		if p == nil {
			fr.nilPanic(instr)
		}
		i.raceAccess(fr, p, mustDeref(instr.X.Type()), false, instr.Pos())
		return load(mustDeref(instr.X.Type()), p)
	case *symref:
		return selectElem(p.elems, p.idx, p.k)
	case *symcellref:
		return p.s.obj.read(i, p.s, p.idx)
	}
	panic(engineError{fmt.Sprintf("load through %T", x)})
}

func (i *interpreter) storePtr(fr *frame, instr *ssa.Store, a, v value) {
	i.writeClock++
	switch p := a.(type) {
	case *value:
		if p == nil {
			fr.nilPanic(instr)
		}
		i.raceAccess(fr, p, mustDeref(instr.Addr.Type()), true, instr.Pos())
		store(mustDeref(instr.Addr.Type()), p, v)
	case *symref:
		for j := range p.elems {
			c := "(= " + p.idx.t + " " + lit(uint64(j), 64) + ")"
			p.elems[j] = mkIte(c, v, p.elems[j], p.k)
		}
	case *symcellref:
		p.s.obj.write(i, p.s, p.idx, v)
	default:
		panic(engineError{fmt.Sprintf("store through %T", a)})
	}
}

func mkIte(c string, a, b value, k types.BasicKind) value {
	if k == types.Bool {
		return symv{"(ite " + c + " " + term(a, k) + " " + term(b, k) + ")", k}
	}
	return symv{"(ite " + c + " " + term(a, k) + " " + term(b, k) + ")", k}
}

func selectElem(elems []value, idx symv, k types.BasicKind) value {
	if len(elems) == 0 {
		panic(pathAbort{"index into empty slice"})
	}
	it := intTerm(idx)
	r := elems[len(elems)-1]
	for j := len(elems) - 2; j >= 0; j-- {
		r = mkIte("(= "+it+" "+lit(uint64(j), 64)+")", elems[j], r, k)
	}
	return r
}

func scalarKind(t types.Type) (types.BasicKind, bool) {
	b, ok := t.Underlying().(*types.Basic)
	if !ok {
		return 0, false
	}
	if b.Info()&(types.IsInteger|types.IsBoolean) == 0 {
		return 0, false
	}
	return kindOf(t), true
}

// symcellref points into a symslice.
type symcellref struct {
	s   *symslice
	idx value
}

func (i *interpreter) indexAddr(fr *frame, instr *ssa.IndexAddr, x, idx value) value {
	var elems []value
	var et types.Type
	switch x := x.(type) {
	case []value:
		elems = x
		et = instr.X.Type().Underlying().(*types.Slice).Elem()
	case *value:
		if x == nil {
			fr.nilPanic(instr)
		}
		if ba, ok := (*x).(*bigArray); ok {
			i.inRange(fr, idx, ba.n, "index out of range", instr.Pos())
			return &symcellref{&symslice{obj: ba.obj, off: 0, n: ba.n, c: ba.n, elem: ba.elem}, toInt(idx)}
		}
		elems = (*x).(array)
		et = mustDeref(instr.X.Type()).Underlying().(*types.Array).Elem()
	case *symslice:
		i.inRange(fr, idx, x.n, "index out of range", instr.Pos())
		return &symcellref{x, toInt(idx)}
	default:
		panic(engineError{fmt.Sprintf("unexpected x type in IndexAddr: %T", x)})
	}
	i.inRange(fr, idx, len(elems), "index out of range", instr.Pos())
	if s, ok := idx.(symv); ok {
		if k, ok := scalarKind(et); ok && len(elems) <= 64 {
			return &symref{elems, toInt(s).(symv), k}
		}
		j := i.pm.concretize(toInt(s).(symv), "index")
		return &elems[j]
	}
	return &elems[asInt64(idx)]
}

func (i *interpreter) indexVal(fr *frame, instr *ssa.Index, x, idx value) value {
	switch x := x.(type) {
	case array:
		i.inRange(fr, idx, len(x), "index out of range", instr.Pos())
		if s, ok := idx.(symv); ok {
			if k, ok := scalarKind(instr.Type()); ok {
				return selectElem(x, s, k)
			}
			return x[i.pm.concretize(toInt(s).(symv), "index")]
		}
		return x[asInt64(idx)]
	case string:
		i.inRange(fr, idx, len(x), "index out of range", instr.Pos())
		if s, ok := idx.(symv); ok {
			return x[i.pm.concretize(toInt(s).(symv), "index")]
		}
		return x[asInt64(idx)]
	case *sstr:
		return x.index(fr, idx, instr.Pos())
	case symstr:
		return i.strIndex(fr, x, idx, instr.Pos())
	}
	panic(engineError{fmt.Sprintf("unexpected x type in Index: %T", x)})
}

func (i *interpreter) lookupOp(fr *frame, instr *ssa.Lookup, x, idx value) value {
	if _, ok := idx.(symv); ok {
		panic(engineError{"map lookup with symbolic integer key at " + fr.pos(instr.Pos())})
	}
	if ks, ok := idx.(symstr); ok {
		// symbolic string key: one alternative per key of the map, plus "none of them"
		m, _ := x.(*omap)
		var keys []value
		if m != nil {
			for _, e := range m.ents {
				if !e.dead {
					keys = append(keys, e.key)
				}
			}
		}
		var conds []string
		var none []string
		for _, k := range keys {
			kk, isStr := k.(string)
			if !isStr {
				panic(engineError{"map with non-constant string keys looked up with a symbolic key"})
			}
			c := "(= " + ks.t + " " + smtString(kk) + ")"
			conds = append(conds, c)
			none = append(none, "(not "+c+")")
		}
		if len(none) == 0 {
			conds = append(conds, "true")
		} else if len(none) == 1 {
			conds = append(conds, none[0])
		} else {
			conds = append(conds, "(and "+strings.Join(none, " ")+")")
		}
		c := i.pm.branch(conds, true)
		if c < len(keys) {
			return lookup(instr, x, keys[c])
		}
		return lookup(instr, (*omap)(nil), "")
	}
	return lookup(instr, x, idx)
}

func (i *interpreter) makeSlice(fr *frame, instr *ssa.MakeSlice, ln, cp value) value {
	tElt := instr.Type().Underlying().(*types.Slice).Elem()
	_, sl := ln.(symv)
	_, sc := cp.(symv)
	if kk, isScalar := scalarKind(tElt); isScalar && width(kk) == 8 {
		// abstract (symbolic-length) representation? replayed identically in concrete re-execution
		if i.pm.note(sl || sc) && !sl && !sc {
			l, c := asInt64(ln), asInt64(cp)
			if l < 0 || c < l {
				panic(runtimePanic{"makeslice: len out of range at " + fr.pos(instr.Pos())})
			}
			o := &bobj{id: i.newID(), cells: map[int]value{}, elemK: kk}
			return &symslice{obj: o, off: 0, n: int(l), c: int(c), elem: tElt}
		}
	}
	if !sl && !sc {
		l, c := asInt64(ln), asInt64(cp)
		if l < 0 || c < l {
			panic(runtimePanic{"makeslice: len out of range at " + fr.pos(instr.Pos())})
		}
		if c > i.pm.cfg.MaxAlloc {
			// huge concrete buffers of bytes are kept sparse
			if k, ok := scalarKind(tElt); ok {
				o := &bobj{id: i.newID(), cells: map[int]value{}, elemK: k}
				return &symslice{obj: o, off: 0, n: int(l), c: int(c), elem: tElt}
			}
			panic(engineError{fmt.Sprintf("allocation of %d elements", c)})
		}
		s := make([]value, c)
		for j := range s {
			s[j] = zero(tElt)
		}
		return s[:l]
	}
	// symbolic length
	i.require(fr, symv{"(bvsge " + intTerm(ln) + " #x0000000000000000)", types.Bool}, "makeslice: len out of range", instr.Pos())
	if sc || true {
		i.require(fr, symv{"(bvsle " + intTerm(ln) + " " + intTerm(cp) + ")", types.Bool}, "makeslice: cap out of range", instr.Pos())
	}
	k, scalar := scalarKind(tElt)
	if scalar && width(k) == 8 {
		o := &bobj{id: i.newID(), cells: map[int]value{}, elemK: k}
		o.zeroed()
		return &symslice{obj: o, off: 0, n: toInt(ln), c: toInt(cp), elem: tElt}
	}
	// other element types: concretise the length (bounded)
	l := i.pm.concretize(toInt(ln).(symv), "make length")
	c := l
	if !sc {
		c = int(asInt64(cp))
	} else if toInt(cp).(symv).t != toInt(ln).(symv).t {
		c = i.pm.concretize(toInt(cp).(symv), "make capacity")
	}
	s := make([]value, c)
	for j := range s {
		s[j] = zero(tElt)
	}
	return s[:l]
}

func (i *interpreter) newID() int { i.nextID++; return i.nextID }

// sliceOp implements x[lo:hi:max].
func (i *interpreter) sliceOp(fr *frame, instr *ssa.Slice, x, lo, hi, max value) value {
	anySym := false
	for _, v := range []value{lo, hi, max} {
		if _, ok := v.(symv); ok {
			anySym = true
		}
	}
	switch xs := x.(type) {
	case *digestbytes:
		return xs // b[:] of a digest
	case *sstr:
		return xs.slice(fr, lo, hi, instr.Pos())
	case symstr:
		return i.strSlice(fr, xs, lo, hi, instr.Pos())
	case *symslice:
		return i.sliceSym(fr, instr, xs, lo, hi, max)
	case string:
		if anySym {
			panic(engineError{"string slice with symbolic bounds at " + fr.pos(instr.Pos())})
		}
	case []value:
		if _, isByte := scalarKind(instr.X.Type().Underlying().(*types.Slice).Elem()); isByte && i.pm.note(anySym) || anySym {
			o := &bobj{id: i.newID(), backing: xs[:cap(xs)]}
			et := instr.X.Type().Underlying().(*types.Slice).Elem()
			if k, ok := scalarKind(et); ok {
				o.elemK = k
			} else {
				panic(engineError{"slice of non-scalar elements with symbolic bounds at " + fr.pos(instr.Pos())})
			}
			return i.sliceSym(fr, instr, &symslice{obj: o, off: 0, n: len(xs), c: cap(xs), elem: et}, lo, hi, max)
		}
	case *value:
		if xs == nil {
			fr.nilPanic(instr)
		}
		if ba, ok := (*xs).(*bigArray); ok {
			return i.sliceSym(fr, instr, &symslice{obj: ba.obj, off: 0, n: ba.n, c: ba.n, elem: ba.elem}, lo, hi, max)
		}
		if anySym {
			a := (*xs).(array)
			et := mustDeref(instr.X.Type()).Underlying().(*types.Array).Elem()
			o := &bobj{id: i.newID(), backing: a}
			if k, ok := scalarKind(et); ok {
				o.elemK = k
			} else {
				panic(engineError{"slice of non-scalar array with symbolic bounds"})
			}
			return i.sliceSym(fr, instr, &symslice{obj: o, off: 0, n: len(a), c: len(a), elem: et}, lo, hi, max)
		}
	}
	// concrete
	var Len, Cap int
	switch x := x.(type) {
	case string:
		Len = len(x)
		Cap = Len
	case []value:
		Len = len(x)
		Cap = cap(x)
	case *value:
		a := (*x).(array)
		Len = len(a)
		Cap = cap(a)
	}
	l := int64(0)
	if lo != nil {
		l = asInt64(lo)
	}
	h := int64(Len)
	if hi != nil {
		h = asInt64(hi)
	}
	m := int64(Cap)
	if max != nil {
		m = asInt64(max)
	}
	if _, isStr := x.(string); isStr {
		if l < 0 || h < l || h > int64(Len) {
			panic(runtimePanic{fmt.Sprintf("slice bounds out of range [%d:%d] with length %d at %s", l, h, Len, fr.pos(instr.Pos()))})
		}
	} else if l < 0 || h < l || m < h || m > int64(Cap) {
		panic(runtimePanic{fmt.Sprintf("slice bounds out of range [%d:%d:%d] with capacity %d at %s", l, h, m, Cap, fr.pos(instr.Pos()))})
	}
	switch x := x.(type) {
	case string:
		return x[l:h]
	case []value:
		return x[l:h:m]
	case *value:
		a := (*x).(array)
		return []value(a)[l:h:m]
	}
	panic(engineError{fmt.Sprintf("slice: unexpected X type: %T", x)})
}

func (i *interpreter) sliceSym(fr *frame, instr *ssa.Slice, s *symslice, lo, hi, max value) value {
	var l, h, m value = 0, s.n, s.c
	if lo != nil {
		l = toInt(lo)
	}
	if hi != nil {
		h = toInt(hi)
	}
	if max != nil {
		m = toInt(max)
	}
	// 0 <= l <= h <= m <= cap
	le := func(a, b value) value { return binop(token.LEQ, tInt, toInt(a), toInt(b)) }
	i.require(fr, le(0, l), "slice bounds out of range (low < 0)", instr.Pos())
	i.require(fr, le(l, h), "slice bounds out of range (low > high)", instr.Pos())
	i.require(fr, le(h, m), "slice bounds out of range (high > cap)", instr.Pos())
	if max != nil {
		i.require(fr, le(m, s.c), "slice bounds out of range (max > cap)", instr.Pos())
	}
	return &symslice{obj: s.obj, off: addInt(s.off, l), n: subInt(h, l), c: subInt(m, l), elem: s.elem}
}

// ---- bobj contents

func (o *bobj) zeroed() {}

func (o *bobj) cell(i *interpreter, abs int) value {
	if o.backing != nil {
		return o.backing[abs]
	}
	if v, ok := o.cells[abs]; ok {
		return v
	}
	// never written: make([]byte) zero-fills; regions written through models are opaque
	if o.lost || len(o.regions) > 0 {
		v := i.pm.fresh(fmt.Sprintf("mem%d[%d]", o.id, abs), o.elemK)
		o.cells[abs] = v
		return v
	}
	return zeroOfKind(o.elemK)
}

func zeroOfKind(k types.BasicKind) value { return zero(types.Typ[k]) }

func (o *bobj) read(i *interpreter, s *symslice, idx value) value {
	abs := addInt(s.off, idx)
	if a, ok := abs.(int); ok {
		return o.cell(i, a)
	}
	if o.backing != nil && len(o.backing) <= 64 {
		return selectElem(o.backing, abs.(symv), o.elemK)
	}
	// opaque read
	return i.pm.fresh(fmt.Sprintf("mem%d[sym]", o.id), o.elemK)
}

func (o *bobj) write(i *interpreter, s *symslice, idx, v value) {
	abs := addInt(s.off, idx)
	if a, ok := abs.(int); ok {
		if o.backing != nil {
			o.backing[a] = v
		} else {
			o.cells[a] = v
		}
		return
	}
	if o.backing != nil && len(o.backing) <= 64 {
		for j := range o.backing {
			c := "(= " + intTerm(abs) + " " + lit(uint64(j), 64) + ")"
			o.backing[j] = mkIte(c, v, o.backing[j], o.elemK)
		}
		return
	}
	o.lost = true
	o.cells = map[int]value{}
}

// binopChecked adds division-by-zero obligations.
func (i *interpreter) binopChecked(fr *frame, instr *ssa.BinOp, x, y value) value {
	switch instr.Op {
	case token.QUO, token.REM:
		if b, ok := instr.X.Type().Underlying().(*types.Basic); ok && b.Info()&types.IsInteger != 0 {
			if s, ok := y.(symv); ok {
				w := width(s.k)
				i.require(fr, symv{"(not (= " + s.t + " " + lit(0, w) + "))", types.Bool}, "integer divide by zero", instr.Pos())
			} else if asInt64(y) == 0 {
				panic(runtimePanic{"integer divide by zero at " + fr.pos(instr.Pos())})
			}
		}
	case token.EQL, token.NEQ:
		if r, ok := intCompare(instr.Op, x, y); ok {
			return r
		}
		return i.eqOp(fr, instr.Op, instr.X.Type(), x, y)
	case token.LSS, token.LEQ, token.GTR, token.GEQ:
		if r, ok := intCompare(instr.Op, x, y); ok {
			return r
		}
	}
	if isSymStr(x) || isSymStr(y) {
		return strBinop(instr.Op, x, y)
	}
	if xs, ok := x.(*sstr); ok {
		return xs.binop(fr, instr.Op, y)
	}
	if ys, ok := y.(*sstr); ok {
		return lift(x.(string)).binop(fr, instr.Op, ys)
	}
	return binop(instr.Op, instr.X.Type(), x, y)
}
