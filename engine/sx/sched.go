package sx

// Goroutines as baton-passing host goroutines; channels, mutexes, wait groups
// are engine objects; scheduling choices are path decisions.

import (
	"fmt"
	"go/token"
	"go/types"

	"golang.org/x/tools/go/ssa"
)

type thread struct {
	id      int
	wake    chan struct{}
	done    bool
	blocked func() bool // non-nil: waiting until it returns true
	what    string
	started bool
	vc      vclock // happens-before clock (cfg.Races)
}

type mchan struct {
	id     int
	cap    int
	buf    []value
	closed bool
	// unbuffered rendezvous
	recvWaiting int
	taken       int // count of handoffs completed
}

type mutexState struct {
	locked  bool
	readers int
	owner   int
}

func (i *interpreter) newChan(cap int) *mchan {
	return &mchan{id: i.newID(), cap: cap}
}

func (i *interpreter) initThreads() {
	t := &thread{id: 0, wake: make(chan struct{}, 1), started: true}
	i.threads = []*thread{t}
	i.cur = t
	i.killed = make(chan struct{})
}


func (i *interpreter) spawn(fr *frame, fn value, args []value, pos token.Pos) {
	if i.pm.cfg.MaxThreads > 0 && len(i.threads) >= i.pm.cfg.MaxThreads {
		panic(engineError{fmt.Sprintf("more than %d threads at %s", i.pm.cfg.MaxThreads, fr.pos(pos))})
	}
	t := &thread{id: len(i.threads), wake: make(chan struct{}, 1)}
	i.threads = append(i.threads, t)
	i.raceFork(i.cur, t)
	i.writeClock++
	i.hostWG.Add(1)
	go func() {
		defer i.hostWG.Done()
		select {
		case <-t.wake:
		case <-i.killed:
			return
		}
		t.started = true
		defer func() {
			r := recover()
			if _, ok := r.(threadKilled); ok {
				return
			}
			t.done = true
			if r != nil {
				// propagate to the main thread
				i.pendPanic = r
				i.cur = i.threads[0]
				i.threads[0].blocked = nil
				i.threads[0].wake <- struct{}{}
				return
			}
			i.threadExit(t)
		}()
		call(i, nil, pos, fn, args)
	}()
	i.yieldPoint("go")
}

func (i *interpreter) runnable() []*thread {
	var r []*thread
	for _, t := range i.threads {
		if t.done {
			continue
		}
		if t.blocked == nil || t.blocked() {
			r = append(r, t)
		}
	}
	return r
}

// park hands the baton to t and waits until this thread is resumed.
func (i *interpreter) switchTo(me, t *thread) {
	if t == me {
		return
	}
	i.cur = t
	t.wake <- struct{}{}
	i.waitBaton(me)
}

func (i *interpreter) waitBaton(me *thread) {
	select {
	case <-me.wake:
	case <-i.killed:
		panic(threadKilled{})
	}
	if i.pendPanic != nil && me.id == 0 {
		p := i.pendPanic
		i.pendPanic = nil
		panic(p)
	}
}

// yieldPoint is a scheduling point at which the current thread could continue.
func (i *interpreter) yieldPoint(what string) {
	if len(i.threads) == 1 {
		return
	}
	me := i.cur
	rs := i.runnable()
	if len(rs) <= 1 {
		return
	}
	if i.switches >= i.pm.cfg.MaxSwitches {
		return
	}
	// order: current thread first
	cands := []*thread{me}
	for _, t := range rs {
		if t != me {
			cands = append(cands, t)
		}
	}
	c := i.pm.choose(len(cands), "sched@"+what)
	if c != 0 {
		i.switches++
		i.switchTo(me, cands[c])
	}
}

// block suspends the current thread until pred holds.
func (i *interpreter) block(pred func() bool, what string) {
	me := i.cur
	for !pred() {
		me.blocked = pred
		me.what = what
		rs := i.runnable()
		var cands []*thread
		for _, t := range rs {
			if t != me {
				cands = append(cands, t)
			}
		}
		if len(cands) == 0 {
			panic(deadlock{i.describeBlocked()})
		}
		c := 0
		if len(cands) > 1 {
			if i.pm.cfg.BlockChoices {
				c = i.pm.choose(len(cands), "sched@block")
			} else {
				c = i.roundRobin(me, cands)
			}
		}
		i.switchTo(me, cands[c])
		me.blocked = nil
	}
	me.blocked = nil
}

type deadlock struct{ msg string }

func (i *interpreter) describeBlocked() string {
	s := "all goroutines are blocked:"
	for _, t := range i.threads {
		if !t.done {
			s += fmt.Sprintf(" T%d on %s;", t.id, t.what)
		}
	}
	return s
}

func (i *interpreter) threadExit(t *thread) {
	rs := i.runnable()
	if len(rs) == 0 {
		// main must be blocked: report deadlock through main
		i.pendPanic = deadlock{i.describeBlocked()}
		i.cur = i.threads[0]
		i.threads[0].wake <- struct{}{}
		return
	}
	c := 0
	if len(rs) > 1 {
		if i.pm.cfg.BlockChoices {
			c = i.pm.choose(len(rs), "sched@exit")
		} else {
			c = i.roundRobin(t, rs)
		}
	}
	i.cur = rs[c]
	rs[c].wake <- struct{}{}
}

// quiesce runs the other threads until all are done or blocked; returns the
// number of threads still alive (blocked).
func (i *interpreter) quiesce() int {
	me := i.cur
	for {
		var cands []*thread
		for _, t := range i.runnable() {
			if t != me {
				cands = append(cands, t)
			}
		}
		if len(cands) == 0 {
			break
		}
		c := 0
		if len(cands) > 1 {
			if i.pm.cfg.BlockChoices {
				c = i.pm.choose(len(cands), "sched@quiesce")
			} else {
				c = i.roundRobin(me, cands)
			}
		}
		i.switchTo(me, cands[c])
	}
	n := 0
	for _, t := range i.threads {
		if t != me && !t.done {
			n++
		}
	}
	i.raceJoinAll()
	return n
}

func (i *interpreter) killThreads() {
	close(i.killed)
}

// ---- channels

func (i *interpreter) chanSend(fr *frame, ch, v value, pos token.Pos) {
	c := ch.(*mchan)
	i.writeClock++
	i.yieldPoint("send")
	if c == nil {
		i.block(func() bool { return false }, "send on nil channel")
	}
	if c.closed {
		panic(runtimePanic{"send on closed channel at " + fr.pos(pos)})
	}
	if c.cap > 0 {
		i.block(func() bool { return c.closed || len(c.buf) < c.cap }, fmt.Sprintf("send chan#%d", c.id))
		if c.closed {
			panic(runtimePanic{"send on closed channel at " + fr.pos(pos)})
		}
		i.raceRelease(c)
		c.buf = append(c.buf, v)
		return
	}
	// unbuffered: deposit and wait until taken
	i.block(func() bool { return c.closed || len(c.buf) == 0 }, fmt.Sprintf("send chan#%d", c.id))
	if c.closed {
		panic(runtimePanic{"send on closed channel at " + fr.pos(pos)})
	}
	i.raceRelease(c)
	c.buf = append(c.buf, v)
	want := c.taken + 1
	i.block(func() bool { return c.taken >= want || c.closed }, fmt.Sprintf("send chan#%d (no receiver)", c.id))
	if c.taken < want {
		panic(runtimePanic{"send on closed channel at " + fr.pos(pos)})
	}
}

func (c *mchan) recvReady() bool { return c != nil && (len(c.buf) > 0 || c.closed) }

func (c *mchan) take() (value, bool) {
	if len(c.buf) > 0 {
		v := c.buf[0]
		c.buf = c.buf[1:]
		if c.cap == 0 {
			c.taken++
		}
		return v, true
	}
	return nil, false
}

func (i *interpreter) chanRecv(fr *frame, instr *ssa.UnOp, ch value) value {
	c := ch.(*mchan)
	i.writeClock++
	i.yieldPoint("recv")
	if c == nil {
		i.block(func() bool { return false }, "receive from nil channel")
	}
	c.recvWaiting++
	i.block(c.recvReady, fmt.Sprintf("recv chan#%d", c.id))
	c.recvWaiting--
	v, ok := c.take()
	i.raceAcquire(c)
	if !ok {
		v = zero(instr.X.Type().Underlying().(*types.Chan).Elem())
	}
	if instr.CommaOk {
		return tuple{v, ok}
	}
	return v
}

func (i *interpreter) chanClose(fr *frame, ch value, pos token.Pos) {
	c := ch.(*mchan)
	i.writeClock++
	if c == nil {
		panic(runtimePanic{"close of nil channel at " + fr.pos(pos)})
	}
	if c.closed {
		panic(runtimePanic{"close of closed channel at " + fr.pos(pos)})
	}
	i.raceRelease(c)
	c.closed = true
}

func (i *interpreter) selectOp(fr *frame, instr *ssa.Select) value {
	i.writeClock++
	i.yieldPoint("select")
	type cs struct {
		c    *mchan
		send bool
		v    value
	}
	var cases []cs
	for _, st := range instr.States {
		c := fr.get(st.Chan).(*mchan)
		k := cs{c: c, send: st.Dir == types.SendOnly}
		if k.send {
			k.v = fr.get(st.Send)
		}
		cases = append(cases, k)
	}
	ready := func() []int {
		var r []int
		for k, c := range cases {
			if c.c == nil {
				continue
			}
			if c.send {
				if c.c.closed || (c.c.cap > 0 && len(c.c.buf) < c.c.cap) || (c.c.cap == 0 && len(c.c.buf) == 0 && c.c.recvWaiting > 0) {
					r = append(r, k)
				}
			} else if c.c.recvReady() {
				r = append(r, k)
			}
		}
		return r
	}
	rs := ready()
	chosen := -1
	if len(rs) == 0 {
		if !instr.Blocking {
			chosen = -1
		} else {
			for _, c := range cases {
				if c.c != nil && !c.send {
					c.c.recvWaiting++
				}
			}
			i.block(func() bool { return len(ready()) > 0 }, "select")
			for _, c := range cases {
				if c.c != nil && !c.send {
					c.c.recvWaiting--
				}
			}
			rs = ready()
		}
	}
	if len(rs) > 0 {
		k := 0
		if len(rs) > 1 {
			k = i.pm.choose(len(rs), "select")
		}
		chosen = rs[k]
	}
	recvOk := false
	var recv value
	if chosen >= 0 {
		c := cases[chosen]
		if c.send {
			if c.c.closed {
				panic(runtimePanic{"send on closed channel at " + fr.pos(instr.Pos())})
			}
			i.raceRelease(c.c)
			c.c.buf = append(c.c.buf, c.v)
			if c.c.cap == 0 {
				want := c.c.taken + 1
				ch := c.c
				i.block(func() bool { return ch.taken >= want || ch.closed }, "select-send handoff")
			}
		} else {
			recv, recvOk = c.c.take()
			i.raceAcquire(c.c)
		}
	}
	r := tuple{chosen, recvOk}
	for k, st := range instr.States {
		if st.Dir == types.RecvOnly {
			var v value
			if k == chosen && recvOk {
				v = recv
			} else {
				v = zero(st.Chan.Type().Underlying().(*types.Chan).Elem())
			}
			r = append(r, v)
		}
	}
	return r
}

// ---- sync primitives (addressed by the pointer to the struct)

func (i *interpreter) mutex(p *value) *mutexState {
	if p == nil {
		panic(runtimePanic{"nil mutex"})
	}
	m := i.mutexes[p]
	if m == nil {
		m = &mutexState{}
		i.mutexes[p] = m
	}
	return m
}

func (i *interpreter) lock(fr *frame, p *value) {
	m := i.mutex(p)
	i.yieldPoint("lock")
	i.block(func() bool { return !m.locked && m.readers == 0 }, "mutex.Lock")
	m.locked = true
	m.owner = i.cur.id
	i.raceAcquire(m)
}

func (i *interpreter) unlock(fr *frame, p *value) {
	m := i.mutex(p)
	if !m.locked {
		panic(runtimePanic{"sync: unlock of unlocked mutex at " + fr.pos(token.NoPos)})
	}
	i.raceRelease(m)
	m.locked = false
	if i.pm.cfg.YieldUnlock {
		// the window after a critical section (lookup -> open, reserve -> write)
		i.yieldPoint("unlock")
	}
}

func (i *interpreter) rlock(fr *frame, p *value) {
	m := i.mutex(p)
	i.yieldPoint("rlock")
	i.block(func() bool { return !m.locked }, "rwmutex.RLock")
	m.readers++
	i.raceAcquire(m)
}

func (i *interpreter) runlock(fr *frame, p *value) {
	m := i.mutex(p)
	if m.readers <= 0 {
		panic(runtimePanic{"sync: RUnlock of unlocked RWMutex"})
	}
	i.raceRelease(m)
	m.readers--
	i.yieldPoint("runlock")
}

// roundRobin picks the runnable thread with the next higher id after me.
func (i *interpreter) roundRobin(me *thread, cands []*thread) int {
	best, bestKey := 0, 1<<30
	for k, t := range cands {
		key := t.id - me.id
		if key <= 0 {
			key += 1 << 20
		}
		if key < bestKey {
			best, bestKey = k, key
		}
	}
	return best
}

// sleepYield hands the baton to the next runnable goroutine (round-robin),
// without consuming the preemption budget: a sleeping goroutine lets the
// others run.
func (i *interpreter) sleepYield() {
	if len(i.threads) == 1 {
		return
	}
	me := i.cur
	var cands []*thread
	for _, t := range i.runnable() {
		if t != me {
			cands = append(cands, t)
		}
	}
	if len(cands) == 0 {
		return
	}
	i.sleeps++
	if i.sleeps > 10000 {
		panic(unwindExceeded{"goroutine sleeps more than 10000 times waiting for others"})
	}
	i.switchTo(me, cands[i.roundRobin(me, cands)])
}
