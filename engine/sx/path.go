package sx

import (
	"fmt"
	"regexp"
	"go/types"
	"sort"
	"strings"
	"time"
)

type Config struct {
	StepLimit       int64
	MaxAlloc        int64 // concrete allocations above this many elements are kept sparse
	MaxThreads      int
	MaxSwitches     int
	Unwind          int // max symbolic decisions per (frame, block)
	ConcretizeLimit int
	MaxPaths        int
	Timeout         time.Duration
	Workers         int
	SolverCapMs     int
	WorkDir         string
	MaxViolPerLabel int
	Seed            int64
	Strings         bool   // string mode: cvc5 is the deciding solver
	SplitMax        int    // max pieces strings.Split may produce on a symbolic string
	Races           bool   // report unsynchronised conflicting memory accesses (happens-before)
	YieldUnlock     bool   // Mutex.Unlock is a preemption point too
	BlockChoices    bool   // explore every choice of the next thread at blocking points (else round-robin)
	Property        string // obligations tagged with other properties are skipped
}

func DefaultConfig() Config {
	return Config{StepLimit: 20_000_000, MaxAlloc: 1 << 16, MaxThreads: 8, MaxSwitches: 2, Unwind: 12,
		ConcretizeLimit: 8, MaxPaths: 200000, Timeout: 30 * time.Minute, Workers: 8, SolverCapMs: 1500,
		WorkDir: "/tmp", MaxViolPerLabel: 2, SplitMax: 8}
}

type Violation struct {
	Harness    string           `json:"harness"`
	Label      string           `json:"label"`
	Kind       string           `json:"kind"` // assert | panic | deadlock | hang
	Vars       map[string]int64 `json:"vars"`
	SVars      map[string]string `json:"svars,omitempty"`
	Choices    []int64          `json:"choices"`
	Oracle     []int64          `json:"oracle"`
	Trace      []int64          `json:"trace"`
	Reproduced bool             `json:"reproduced_in_engine"`
	Native     string           `json:"native_replay,omitempty"`
	Facts      map[string]string `json:"facts,omitempty"`
	Solver     string            `json:"solver,omitempty"` // which solver produced the model
}

type Replay struct {
	Vars    map[string]int64
	SVars   map[string]string
	Choices []int64
	Oracle  []int64
	opos    int
	pos     int
	failed  []string // labels of assertions that failed concretely
}

type solverUnknown struct{ what string }

type pathMgr struct {
	w   *worker
	sol *solver
	cfg *Config

	prefix  []int64
	trace   []int64
	choices []int64
	oracle  []int64
	pc      []string
	names   map[string]int
	vars    []string
	kinds   map[string]types.BasicKind
	strVars map[string]bool
	unwind  int
	facts   map[string]string
	pcSet   map[string]bool

	concrete *Replay
	lastSVars map[string]string
	ambiguous []string
	inputStrs, digestStrs []string
	newWork  [][]int64
}

func (pm *pathMgr) beginRun(prefix []int64) {
	pm.prefix = prefix
	pm.trace = pm.trace[:0]
	pm.choices = pm.choices[:0]
	pm.oracle = pm.oracle[:0]
	pm.pc = pm.pc[:0]
	pm.names = map[string]int{}
	pm.vars = pm.vars[:0]
	pm.kinds = map[string]types.BasicKind{}
	pm.strVars = map[string]bool{}
	pm.unwind = pm.cfg.Unwind
	pm.facts = map[string]string{}
	pm.pcSet = map[string]bool{}
	pm.newWork = nil
	if pm.concrete == nil {
		pm.sol.push()
	}
}

func (pm *pathMgr) endRun() {
	if pm.concrete == nil {
		pm.sol.pop()
	}
}

func (pm *pathMgr) addPC(c string) {
	if c == "true" || pm.pcSet[c] {
		return
	}
	pm.pcSet[c] = true
	pm.pc = append(pm.pc, c)
	pm.sol.assert(c)
}

func (pm *pathMgr) uniqueName(name string) string {
	n := pm.names[name]
	pm.names[name]++
	if n > 0 {
		return fmt.Sprintf("%s!%d", name, n)
	}
	return name
}

func concreteOfKind(v int64, k types.BasicKind) value {
	switch k {
	case types.Bool:
		return v != 0
	case types.Int:
		return int(v)
	case types.Int8:
		return int8(v)
	case types.Int16:
		return int16(v)
	case types.Int32:
		return int32(v)
	case types.Int64:
		return v
	case types.Uint:
		return uint(v)
	case types.Uint8:
		return uint8(v)
	case types.Uint16:
		return uint16(v)
	case types.Uint32:
		return uint32(v)
	case types.Uint64:
		return uint64(v)
	case types.Uintptr:
		return uintptr(v)
	}
	panic(engineError{"concreteOfKind"})
}

func (pm *pathMgr) fresh(name string, k types.BasicKind) value {
	plain := pm.uniqueName(name)
	if pm.concrete != nil {
		return concreteOfKind(pm.concrete.Vars[plain], k)
	}
	full := "|$" + plain + "|"
	if !pm.w.declared[full] {
		pm.w.declared[full] = true
		if k == types.Bool {
			pm.sol.declare("(declare-const " + full + " Bool)")
		} else {
			pm.sol.declare(fmt.Sprintf("(declare-const %s (_ BitVec %d))", full, width(k)))
		}
	}
	pm.vars = append(pm.vars, full)
	pm.kinds[full] = k
	return symv{full, k}
}

// freshStr introduces a symbolic string (ASCII only: Go strings are byte
// sequences, SMT strings code-point sequences; they agree on ASCII).
func (pm *pathMgr) freshStr(name string) value { return pm.freshStrKind(name, true) }

func (pm *pathMgr) freshStrKind(name string, isInput bool) value {
	plain := pm.uniqueName(name)
	if pm.concrete != nil {
		return pm.concrete.SVars[plain]
	}
	full := "|$" + plain + "|"
	if !pm.w.declared[full] {
		pm.w.declared[full] = true
		pm.sol.declare("(declare-const " + full + " String)")
	}
	pm.vars = append(pm.vars, full)
	pm.strVars[full] = true
	if isInput {
		pm.inputStrs = append(pm.inputStrs, full)
		for _, d := range pm.digestStrs {
			pm.addPC("(not (= " + d + " " + full + "))")
		}
	}
	pm.addPC("(str.in_re " + full + " (re.* (re.range \"\\u{0}\" \"\\u{7f}\")))")
	return symstr{full}
}

func (pm *pathMgr) checkSat(extra string) string {
	r, _ := pm.sol.check(extra, nil)
	return r
}

// branch chooses among alternatives whose guards are conds (SMT bools).
func (pm *pathMgr) branch(conds []string, complementary bool) int {
	if pm.concrete != nil {
		panic(engineError{"symbolic branch during concrete replay"})
	}
	idx := len(pm.trace)
	if idx < len(pm.prefix) {
		c := int(pm.prefix[idx])
		pm.trace = append(pm.trace, int64(c))
		pm.addPC(conds[c])
		return c
	}
	var feas []int
	for k, c := range conds {
		if complementary && k == len(conds)-1 && len(feas) == 0 {
			feas = append(feas, k) // pc is satisfiable, so the last alternative must be
			break
		}
		r := pm.checkSat(c)
		if r != "unsat" {
			feas = append(feas, k)
		}
	}
	if len(feas) == 0 {
		panic(pathAbort{"no feasible successor"})
	}
	pm.w.transitions += len(feas)
	for _, f := range feas[1:] {
		p := append(append(make([]int64, 0, len(pm.trace)+1), pm.trace...), int64(f))
		pm.newWork = append(pm.newWork, p)
	}
	pm.trace = append(pm.trace, int64(feas[0]))
	pm.addPC(conds[feas[0]])
	return feas[0]
}

// choose is an unconstrained n-way choice (Choose intrinsic, scheduler, select).
func (pm *pathMgr) choose(n int, what string) int {
	if n <= 1 {
		return 0
	}
	if pm.concrete != nil {
		r := pm.concrete
		c := int64(0)
		if r.pos < len(r.Choices) {
			c = r.Choices[r.pos]
		}
		r.pos++
		if int(c) >= n {
			c = 0
		}
		return int(c)
	}
	idx := len(pm.trace)
	var c int
	if idx < len(pm.prefix) {
		c = int(pm.prefix[idx])
	} else {
		pm.w.transitions += n
		for f := 1; f < n; f++ {
			p := append(append(make([]int64, 0, len(pm.trace)+1), pm.trace...), int64(f))
			pm.newWork = append(pm.newWork, p)
		}
	}
	pm.trace = append(pm.trace, int64(c))
	pm.choices = append(pm.choices, int64(c))
	return c
}

// concretize enumerates the feasible values of t (bounded) and forks on them.
func (pm *pathMgr) concretize(t symv, what string) int {
	if pm.concrete != nil {
		panic(engineError{"concretize during concrete replay"})
	}
	idx := len(pm.trace)
	if idx < len(pm.prefix) {
		v := pm.prefix[idx]
		pm.trace = append(pm.trace, v)
		pm.addPC("(= " + intTerm(t) + " " + lit(uint64(v), 64) + ")")
		return int(v)
	}
	var vals []int64
	var block []string
	nm := "|conc!tmp|"
	if !pm.w.declared[nm] {
		pm.w.declared[nm] = true
		pm.sol.declare("(declare-const " + nm + " (_ BitVec 64))")
	}
	for {
		q := "(= " + nm + " " + intTerm(t) + ")"
		if len(block) > 0 {
			q = "(and " + q + " " + strings.Join(block, " ") + ")"
		}
		r, m := pm.sol.check(q, []string{nm})
		if r == "unsat" {
			break
		}
		if r != "sat" {
			panic(solverUnknown{"concretize " + what})
		}
		v, ok := modelInt(m[nm])
		if !ok {
			panic(engineError{"cannot parse model value " + m[nm]})
		}
		vals = append(vals, v)
		block = append(block, "(not (= "+nm+" "+lit(uint64(v), 64)+"))")
		if len(vals) > pm.cfg.ConcretizeLimit {
			panic(unwindExceeded{fmt.Sprintf("more than %d feasible values for symbolic %s", pm.cfg.ConcretizeLimit, what)})
		}
	}
	if len(vals) == 0 {
		panic(pathAbort{"no feasible value"})
	}
	sort.Slice(vals, func(a, b int) bool { return vals[a] < vals[b] })
	pm.w.transitions += len(vals)
	for _, v := range vals[1:] {
		p := append(append(make([]int64, 0, len(pm.trace)+1), pm.trace...), v)
		pm.newWork = append(pm.newWork, p)
	}
	pm.trace = append(pm.trace, vals[0])
	pm.addPC("(= " + intTerm(t) + " " + lit(uint64(vals[0]), 64) + ")")
	return int(vals[0])
}

func (i *interpreter) decide(fr *frame, c value) bool {
	switch c := c.(type) {
	case bool:
		return c
	case symv:
		if i.pm.concrete == nil {
			// already decided on this path (syntactically): no new decision
			if i.pm.pcSet[c.t] {
				return true
			}
			if i.pm.pcSet["(not "+c.t+")"] {
				return false
			}
		}
		return i.pm.branch([]string{c.t, "(not " + c.t + ")"}, true) == 0
	}
	panic(engineError{fmt.Sprintf("decide: %T", c)})
}

func (pm *pathMgr) assume(c value) {
	switch c := c.(type) {
	case bool:
		if !c {
			panic(pathAbort{"assume false"})
		}
	case symv:
		if len(pm.trace) >= len(pm.prefix) {
			if pm.checkSat(c.t) == "unsat" {
				panic(pathAbort{"assume infeasible"})
			}
		}
		pm.addPC(c.t)
	default:
		panic(engineError{fmt.Sprintf("assume: %T", c)})
	}
}

func (pm *pathMgr) model() (map[string]int64, bool) {
	if len(pm.vars) == 0 {
		return map[string]int64{}, true
	}
	r, m := pm.sol.check("", pm.vars)
	if r != "sat" {
		return nil, false
	}
	return pm.modelInts(m), true
}

func (pm *pathMgr) modelInts(m map[string]string) map[string]int64 {
	out := map[string]int64{}
	pm.lastSVars = nil
	for k, v := range m {
		plain := strings.TrimPrefix(strings.Trim(k, "|"), "$")
		if pm.strVars["|$"+plain+"|"] {
			if s, ok := parseSMTString(v); ok {
				if pm.lastSVars == nil {
					pm.lastSVars = map[string]string{}
				}
				pm.lastSVars[plain] = s
			}
			continue
		}
		if n, ok := modelInt(v); ok {
			out[plain] = n
		}
	}
	return out
}

func (pm *pathMgr) recordViolation(kind, label string, vars map[string]int64) {
	w := pm.w
	w.violCount[label]++
	if w.violCount[label] > pm.cfg.MaxViolPerLabel {
		return
	}
	facts := map[string]string{}
	for k, v := range pm.facts {
		facts[k] = v
	}
	w.violations = append(w.violations, &Violation{Harness: w.harness, Label: label, Kind: kind, Vars: vars, SVars: pm.lastSVars,
		Choices: append([]int64{}, pm.choices...), Oracle: append([]int64{}, pm.oracle...), Trace: append([]int64{}, pm.trace...), Facts: facts, Solver: pm.sol.lastBy})
}

// raceViolation records a data race seen on this path (definite on the path:
// the schedule is part of the path's choices).
func (pm *pathMgr) raceViolation(label string) {
	if !pm.relevant(label) {
		return
	}
	if pm.concrete != nil {
		pm.concrete.failed = append(pm.concrete.failed, label)
		return
	}
	w := pm.w
	w.obligations[label]++
	m, ok := pm.model()
	if !ok {
		w.incomplete("model for a data race unavailable: " + label)
		return
	}
	pm.recordViolation("race", label, m)
}

// assert is an explicit obligation of the harness.
func (pm *pathMgr) assert(c value, label string) { pm.oblige(c, label, "assert") }

// obligation is an implicit obligation (absence of a run-time panic).
func (pm *pathMgr) obligation(c symv, label string) { pm.oblige(c, label, "panic") }

var propTag = regexp.MustCompile(`C[0-9][0-9]`)

// relevant: an explicit obligation whose label names properties (C03, C17..)
// is only checked when the run is for one of them; untagged labels always are.
func (pm *pathMgr) relevant(label string) bool {
	if pm.cfg.Property == "" {
		return true
	}
	tags := propTag.FindAllString(label, -1)
	if len(tags) == 0 {
		return true
	}
	for _, t := range tags {
		if t == pm.cfg.Property {
			return true
		}
	}
	return false
}

func (pm *pathMgr) oblige(c value, label, kind string) {
	w := pm.w
	if kind == "assert" && !pm.relevant(label) {
		return
	}
	if pm.concrete != nil {
		b, ok := c.(bool)
		if !ok {
			panic(engineError{"symbolic assertion in concrete replay"})
		}
		if !b {
			pm.concrete.failed = append(pm.concrete.failed, label)
			if kind == "panic" {
				panic(pathAbort{"replayed panic"})
			}
		}
		return
	}
	if kind == "assert" {
		w.obligations[label]++
	} else {
		w.implicit++
	}
	switch c := c.(type) {
	case bool:
		if c {
			if kind == "assert" {
				w.discharged[label]++
			} else {
				w.implicitOK++
			}
			return
		}
		m, ok := pm.model()
		if !ok {
			w.incomplete("model for concrete assertion failure unavailable: " + label)
		}
		pm.recordViolation(kind, label, m)
		panic(pathAbort{"assert failed (concrete) " + label})
	case symv:
		if w.violCount[label] >= pm.cfg.MaxViolPerLabel {
			// already reported often enough: assume and go on
			if pm.checkSat(c.t) == "unsat" {
				panic(pathAbort{"assert infeasible"})
			}
			pm.addPC(c.t)
			return
		}
		r, m := pm.sol.check("(not "+c.t+")", pm.vars)
		switch r {
		case "unsat":
			if kind == "assert" {
				w.discharged[label]++
			} else {
				w.implicitOK++
			}
			pm.addPC(c.t)
		case "sat":
			pm.recordViolation(kind, label, pm.modelInts(m))
			if pm.checkSat(c.t) == "unsat" {
				panic(pathAbort{"assert always fails"})
			}
			pm.addPC(c.t)
		default:
			w.incomplete("solver unknown on obligation " + label)
			pm.addPC(c.t)
		}
	default:
		panic(engineError{fmt.Sprintf("assert: %T", c)})
	}
}

// note records a representation decision that depends on whether values are
// symbolic (e.g. "this buffer is kept abstract"); recall replays it in a
// concrete re-execution so that environment models behave identically.
func (pm *pathMgr) note(v bool) bool {
	if pm.concrete != nil {
		r := pm.concrete
		if r.opos < len(r.Oracle) {
			v = r.Oracle[r.opos] != 0
		}
		r.opos++
		return v
	}
	if v {
		pm.oracle = append(pm.oracle, 1)
	} else {
		pm.oracle = append(pm.oracle, 0)
	}
	return v
}
