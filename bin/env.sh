# Source me: toolchain environment for the verification machinery (offline).
GO125=/root/go/pkg/mod/golang.org/toolchain@v0.0.1-go1.25.0.linux-amd64
if [ -x "$GO125/bin/go" ]; then
  export PATH="$GO125/bin:$PATH"
fi
export GOTOOLCHAIN=local GOFLAGS=-mod=mod GOPROXY=off GOSUMDB=off CGO_ENABLED=0
